"""Replay of the closed-form cases of Walls.tla (part of C06)."""
import json
import vlib
from vlib import close


def config_text(c, period):
    cv = ["colvar {", "  name z", "  width %d.0" % c["w"], "  distanceZ {", "    main { atomNumbers 1 }", "    ref { dummyAtom (0,0,0) }", "    axis (0,0,1)"]
    if c["periodic"]:
        cv += ["    period %d.0" % period, "    wrapAround 0.0"]
    cv += ["  }", "}"]
    if c["kind"] == "harmonic":
        b = ["harmonic {", "  colvars z", "  centers %d.0" % c["c"], "  forceConstant %d.0" % c["k"], "}"]
    elif c["kind"] == "linear":
        b = ["linear {", "  colvars z", "  centers %d.0" % c["c"], "  forceConstant %d.0" % c["k"], "}"]
    else:
        b = ["harmonicWalls {", "  colvars z", "  forceConstant %d.0" % c["k"]]
        if c["hasLo"]:
            b += ["  lowerWalls %d.0" % c["lo"], "  lowerWallConstant %d.0" % c["kLo"]]
        if c["hasHi"]:
            b += ["  upperWalls %d.0" % c["hi"], "  upperWallConstant %d.0" % c["kHi"]]
        b.append("}")
    return "\n".join(cv + b) + "\n"


def chunk(args):
    cases, seed = args
    d = vlib.Drv()
    out = []
    try:
        for cs in cases:
            c = cs["c"]
            d.cmd(op="new", natoms=2)
            r = d.cmd(op="config", text=config_text(c, cs["period"]))
            if r.get("rc") != 0:
                out.append(("machinery", "walls config rejected: %s %s" % (r.get("errtext"), json.dumps(c)), cs))
                continue
            s = d.cmd(op="step", pos=[[0, 0, float(cs["x"])], [0, 0, 0]])
            w2 = c["w"] * c["w"]
            e, f = cs["e2"] / (2.0 * w2), cs["fww"] / float(w2)
            if s.get("op") != "step":
                out.append(("mismatch", {"act": 0, "fields": ["died"]}, cs))
            elif not close(s["E"], e) or not close(s["cvs"]["z"]["fa"][0], f) or not close(s["fat"].get("0", [0, 0, 0])[2], f):
                out.append(("mismatch", {"act": 0, "fields": ["energy %r force %r atom force %r; closed form energy %r force %r" % (
                    s["E"], s["cvs"]["z"]["fa"][0], s["fat"].get("0", [0, 0, 0])[2], e, f)]}, cs))
            else:
                out.append(("ok", None, None))
            d.cmd(op="destroy")
    finally:
        d.close()
    return out


def replay(ctx, cases):
    for c in cases[:1]:
        ctx.sample(c)
    for c in cases:
        if c["e2"] != 0:
            ctx.nontriv(["walls", c["c"], c["x"]])

    def on(status, info, cs):
        ctx.violation("closed-form-mismatch", "%s restraint at x=%d: %s (%s)" % (cs["c"]["kind"], cs["x"], info["fields"][0], json.dumps(cs["c"])), {"case": cs})
    vlib.replay_parallel(ctx, cases, chunk, on, "closed forms")
