"""C11: state files are crash-consistent and damaged state never crashes the host.
spec/StateFile.tla (replacement protocol with crashes), StateFileTrace (recorded file operations, crash replay),
MemStream.tla (binary stream cursor arithmetic; TLC-generated typed round trips, cuts and corrupted prefixes),
StateDoc.tla (truncated documents)."""
import json, os, re, random, shutil, struct
import vlib
import c13

KNOWN = {
    "binary-truncated-hills-accepted":
        "a binary state truncated inside the explicit hill list of a metadynamics block is accepted without error "
        "(read_state_data loops `while (read_hill(is))` and clears the stream state; the binary format has no closing delimiter)",
    "backup-overwrites-only-complete-state":
        "after a write was interrupted (state partial, state.old complete), the next process's backup renames the partial file over state.old: "
        "from then until its own write completes no complete state exists on disk, and a second crash in that window loses everything",
}

def _cv(name, atom):
    return ("colvar {\n  name %s\n  width 1.0\n  lowerBoundary 0.0\n  upperBoundary 4.0\n  distanceZ {\n    main { atomNumbers %d }\n"
            "    ref { dummyAtom (0,0,0) }\n    axis (0,0,1)\n    oneSiteTotalForce on\n  }\n}\n" % (name, atom))


CFG = _cv("z", 1) + _cv("y", 2) + c13.bias_text("harmonic", "h", ["z"]) + \
    c13.bias_text("metadynamics", "m", ["z"]) + c13.bias_text("abf", "a", ["z"]) + c13.bias_text("histogram", "hi", ["z", "y"])


def val(kind, n, idx):
    base = idx * 7 + 3
    if kind == "u8":
        return (base * 13) % 256
    if kind == "i32":
        return -(base * 100003) if idx % 2 else base * 100003
    if kind == "i64":
        return base * 10000000019
    if kind == "f64":
        return base + 0.125
    if kind == "str":
        return "".join(chr(97 + (base + i) % 26) for i in range(n))
    if kind == "vu8":
        return [(base + i * 31) % 256 for i in range(n)]
    if kind == "vi32":
        return [(-1) ** i * (base + i) * 1003 for i in range(n)]
    if kind == "vi64":
        return [(base + i) * 10000000019 for i in range(n)]
    return [base + i + 0.5 for i in range(n)]


def memstream_chunk(args):
    cases, seed = args
    d = vlib.Drv()
    out = []
    try:
        for c in cases:
            items = [{"t": it["k"], "v": val(it["k"], it["n"], i)} for i, it in enumerate(c["items"])]
            cmd = {"op": "memstream", "items": items}
            mut = c["mut"]
            if mut["t"] == "cut":
                cmd["truncate"] = mut["k"]
            elif mut["t"] == "patch":
                j = mut["j"] - 1
                off = c["wlen"][j - 1] if j > 0 else 0
                cnt = (2 ** 61) if mut["c"] < 0 else mut["c"]
                cmd["patch"] = {"off": off, "u64": str(cnt)}
            # every case is read twice: into fresh destinations and into destinations that already hold other data
            cmd["prefill"] = bool(c.get("_prefill"))
            r = d.send(cmd)
            bad = None
            if r.get("op") in ("died", "exception"):
                bad = "the stream reader raised/terminated: %s" % (r.get("what") or r.get("signal"))
                if d.dead:
                    d = vlib.Drv()
            else:
                if r["wlen"] != c["wlen"]:
                    bad = "written lengths %s, specification %s" % (r["wlen"], c["wlen"])
                else:
                    exp = c["reads"]
                    got = r["reads"]
                    for i, e in enumerate(exp):
                        if i >= len(got):
                            bad = "reader stopped after %d items, specification expects %d results" % (len(got), len(exp))
                            break
                        g = got[i]
                        if g["ok"] != e["ok"] or g["pos"] != e["pos"]:
                            bad = "read %d: ok=%s pos=%d, specification ok=%s pos=%d" % (i + 1, g["ok"], g["pos"], e["ok"], e["pos"])
                            break
                        if e["ok"] and not e["free"] and mut["t"] != "patch" and g["v"] != items[i]["v"]:
                            bad = "read %d: value %r differs from what was written %r" % (i + 1, g["v"], items[i]["v"])
                            break
                        if e["free"]:
                            break
                    if bad is None and any(g["pos"] > r["buflen"] for g in got):
                        bad = "read position beyond the end of the buffer"
                    if bad is None and (not exp or exp[-1]["ok"]) is False:
                        pass
            out.append(("ok", None, None) if bad is None else ("mismatch", {"act": 0, "fields": [bad]}, c))
    finally:
        d.close()
    return out


STATE = "out.colvars.state"


def is_state(o):
    return os.path.basename(o["a"]) == STATE


def prefix_events(ops, k):
    """Events of the state-file protocol performed before the process was killed at its k-th file operation
    (the recorder is called before backup/rename/open_pre/close_pre take effect and after open/close did)."""
    done = ops[:k - 1] if ops[k - 1]["op"] in ("backup", "rename", "open_pre", "close_pre") else ops[:k]
    return fileops_to_events(done)


def fileops_to_events(ops):
    ev = []
    ops = [o for o in ops if is_state(o)]
    for i, o in enumerate(ops):
        if o["op"] == "rename":
            for x in reversed(ev):
                if x["e"] == "backup":
                    x["ren"] = 1
                    break
        elif o["op"] == "backup":
            # the backup action of the model = existence test + rename; it has happened only once the rename
            # (if any) was issued; a backup of an absent file is complete immediately
            ev.append({"e": "backup", "ren": 0, "_pending": True})
        elif o["op"] == "open":
            ev.append({"e": "open"})
        elif o["op"] == "close_pre":
            ev.append({"e": "write"})
        elif o["op"] == "close":
            ev.append({"e": "close"})
    return ev


def loadable(wd, name):
    """Ask the real loader (fresh process) whether the file is a complete, loadable state."""
    if not os.path.exists(os.path.join(wd, name)):
        return 0
    # the loader derives the file name from a prefix: probe a copy with a canonical name
    shutil.copyfile(os.path.join(wd, name), os.path.join(wd, "probe.colvars.state"))
    name = "probe.colvars.state"
    d = vlib.Drv(cwd=wd)
    try:
        d.cmd(op="new", natoms=8)
        r = d.cmd(op="config", text=CFG)
        r = d.cmd(op="load", fmt="file", name=name)
        if r.get("op") == "died":
            return -1
        # complete and loadable = accepted without error AND the saved step was restored
        ok = (r.get("rc") == 0 and r.get("err") == 0 and r.get("it", 0) > 0)
        if ok:
            s = d.cmd(op="step", pos=[[0, 0, 1.5]] * 8)
            ok = s.get("op") == "step"
        return 1 if ok else 0
    finally:
        d.close()


def writer(wd, nwrites, crash_at=None, binary=False, continue_from=None):
    """One process: configure, run, write the state every 2 steps; optionally die at the crash_at-th file operation.
    Returns the file-operation list performed by this process."""
    d = vlib.Drv(cwd=wd)
    try:
        d.cmd(op="new", natoms=8, prefix="out", restartFreq=2, recordFiles=True)
        cfg = CFG if not binary else CFG
        d.cmd(op="config", text=cfg)
        if continue_from:
            d.cmd(op="load", fmt="file", name=continue_from)
        if crash_at is not None:
            d.cmd(op="crashat", n=crash_at)
        ops = None
        for i in range(2 * nwrites + 1):
            r = d.cmd(op="step", pos=[[0, 0, 0.5 + (i % 4)]] * 8)
            if r.get("op") in ("crash", "died"):
                return r
        return d.cmd(op="fileops")
    finally:
        d.close()


def clean(ev):
    return [{k: v for k, v in e.items() if not k.startswith("_")} for e in ev]


def crash_replay(ctx, quick):
    """Enumerate every crash point of the recorded protocol (first process), then every crash point of the next
    process's first write; after each death the real loader says which files are loadable; the whole history
    (file operations, crash, observation) is validated against StateFileTrace."""
    base = os.path.join(ctx.workdir, "crash")
    events = []
    nexec = 0
    wd = os.path.join(base, "ref")
    os.makedirs(wd, exist_ok=True)
    ref = writer(wd, 3)
    refops = ref["ops"]
    ctx.sample({"recorded_protocol": [(o["op"], os.path.basename(o["a"])) for o in refops if is_state(o)][:12]})
    full = clean(fileops_to_events(refops))
    events += [{"e": "Reset"}] + full
    nexec += 1
    state_idx = [i + 1 for i, o in enumerate(refops) if is_state(o)]
    # crash points: every state-file operation, plus a few operations on other files in between
    points = sorted(set(state_idx) | set(range(1, len(refops) + 1, 9)))
    closes = [i + 1 for i, o in enumerate(refops) if is_state(o) and o["op"] == "close"]
    second_write_start = (closes[0] + 1) if closes else 1
    if quick:
        points = [k for k in points if k >= second_write_start]
    for k in points:
        wd = os.path.join(base, "k%d" % k)
        os.makedirs(wd, exist_ok=True)
        r = writer(wd, 3, crash_at=k)
        if r.get("op") != "crash":
            continue
        ev = [{"e": "Reset"}] + clean(prefix_events(refops, k)) + [{"e": "crash"}]
        # a crash between the existence test and the rename: the model's backup has not happened yet
        if refops[k - 1]["op"] == "rename" and is_state(refops[k - 1]):
            ev = ev[:-2] + [{"e": "crash"}]
        st, old = loadable(wd, STATE), loadable(wd, STATE + ".old")
        if st < 0 or old < 0:
            ctx.violation("loader-crash", "the loader died on the files left by a crash at file operation %d" % k, {"k": k})
            continue
        ev.append({"e": "load", "state": st, "old": old})
        ctx.nontriv(["crash", k])
        events += ev
        nexec += 1
        src = STATE if st else (STATE + ".old" if old else None)
        if src is None or (quick and k % 2):
            shutil.rmtree(wd, ignore_errors=True)
            continue
        # second process: continues from what is loadable; reference run, then killed at each of its state-file operations
        wdr = os.path.join(base, "k%d_ref" % k)
        shutil.copytree(wd, wdr)
        ref2 = writer(wdr, 1, continue_from=src)
        shutil.rmtree(wdr, ignore_errors=True)
        if ref2.get("op") != "fileops":
            continue
        ops2 = ref2["ops"]
        idx2 = [i + 1 for i, o in enumerate(ops2) if is_state(o)]
        first_close = next((i for i in idx2 if ops2[i - 1]["op"] == "close"), idx2[-1] if idx2 else 0)
        for k2 in [i for i in idx2 if i <= first_close]:
            wd2 = os.path.join(base, "k%d_%d" % (k, k2))
            shutil.copytree(wd, wd2)
            r2 = writer(wd2, 1, crash_at=k2, continue_from=src)
            if r2.get("op") != "crash":
                shutil.rmtree(wd2, ignore_errors=True)
                continue
            e2 = clean(prefix_events(ops2, k2))
            if ops2[k2 - 1]["op"] == "rename" and is_state(ops2[k2 - 1]):
                e2 = e2[:-1]
            s2, o2 = loadable(wd2, STATE), loadable(wd2, STATE + ".old")
            ev2 = ev + e2 + [{"e": "crash"}, {"e": "load", "state": max(s2, 0), "old": max(o2, 0)}]
            events += ev2
            nexec += 1
            ctx.nontriv(["crash2", k, k2])
            if s2 <= 0 and o2 <= 0:
                ctx.violation("backup-overwrites-only-complete-state", KNOWN["backup-overwrites-only-complete-state"] +
                              " (real code: first process killed at file operation %d, the next one at its operation %d: neither file loads)" % (k, k2), {"k": k, "k2": k2})
            shutil.rmtree(wd2, ignore_errors=True)
        shutil.rmtree(wd, ignore_errors=True)
    return vlib.validate_trace(ctx, "StateFileTrace", "StateFileTrace.cfg", events, "crash-replay", nexec=nexec, key="protocol-trace-rejected")


# ------------------------------------------------------------------ the state file a walker publishes for its peers (spec/ReplicaFile.tla)

REP_CFG = ("colvar {\n  name z\n  width 0.5\n  lowerBoundary -4\n  upperBoundary 4\n  distanceZ {\n    main { atomNumbers 1 }\n    ref { dummyAtom (0,0,0) }\n  }\n}\n"
           "metadynamics {\n  name m\n  colvars z\n  hillWeight 1.0\n  hillWidth 1.6986436005760382\n  newHillFrequency 1\n  multipleReplicas on\n  replicaID w1\n"
           "  replicasRegistry reg.txt\n  replicaUpdateFrequency 2\n}\n")
REP_STATE = "o.colvars.m.w1.state"


def rep_writer(wd, nsteps, crash_at=None):
    """One walker process; returns (file operations, set of complete versions of the published file) or the crash reply."""
    d = vlib.Drv(cwd=wd)
    versions = set()
    try:
        d.cmd(op="new", natoms=2, prefix="o", restartFreq=2, trajFreq=0, recordFiles=True)
        r = d.cmd(op="config", text=REP_CFG)
        if r.get("op") in ("crash", "died"):
            return r, versions
        versions.add("ncfg=%d" % len(d.cmd(op="fileops", clear=False)["ops"]))
        if crash_at is not None:
            d.cmd(op="crashat", n=crash_at)
        for i in range(nsteps):
            r = d.cmd(op="step", pos=[[0, 0, 0.25 + 0.5 * ((i * 3) % 5 - 2)], [0, 0, 0]])
            if r.get("op") in ("crash", "died"):
                return r, versions
            p = os.path.join(wd, REP_STATE)
            if os.path.exists(p):
                versions.add(open(p).read())
        return d.cmd(op="fileops", clear=False), versions
    finally:
        d.close()


def rep_events(ops):
    ev = []
    for o in ops:
        b = os.path.basename(o["a"])
        if b == REP_STATE + ".tmp":
            n = "tmp"
        elif b == REP_STATE:
            n = "state"
        else:
            continue
        if o["op"] == "remove":
            ev.append({"e": "remove", "n": n})
        elif o["op"] == "open" and n == "tmp":
            ev.append({"e": "open", "n": n})
        elif o["op"] == "close_pre" and n == "tmp":
            ev.append({"e": "write", "n": n})
        elif o["op"] == "close" and n == "tmp":
            ev.append({"e": "close", "n": n})
        elif o["op"] == "rename":
            ev.append({"e": "rename", "n": n})
    return ev


def replica_protocol(ctx, quick):
    """The recorded protocol of the published walker state, a real process death at each of its file operations, and
    what a peer finds under the published name afterwards; validated against ReplicaFileTrace."""
    r = vlib.tlc("MCReplicaFile", "MCReplicaFile.cfg", workers=4, timeout=600)
    ctx.add_tlc(r, "ReplicaFile protocol (all crash points, repeated crashes)")
    if r.violation:
        ctx.violation("model:replica:" + r.violation, "ReplicaFile.tla violates %s" % r.violation, {"tlc": vlib.counterexample(r)})
        return
    base = os.path.join(ctx.workdir, "replica")
    wd = os.path.join(base, "ref")
    os.makedirs(wd, exist_ok=True)
    nsteps = 7
    ref, versions = rep_writer(wd, nsteps)
    if ref.get("op") != "fileops":
        raise vlib.MachineryError("C11 walker reference run failed: %s" % ref)
    ops = ref["ops"]
    ncfg = max(int(v[5:]) for v in versions if v.startswith("ncfg="))     # operations performed while the configuration was read
    versions = {v for v in versions if not v.startswith("ncfg=")}
    idx = [i + 1 for i, o in enumerate(ops) if os.path.basename(o["a"]) in (REP_STATE, REP_STATE + ".tmp") and i + 1 > ncfg]
    if len([i for i in idx if ops[i - 1]["op"] == "rename"]) < 2 or not versions:
        raise vlib.MachineryError("C11 walker reference run did not replace its published state twice")
    events = [{"e": "Reset"}] + rep_events(ops)
    nexec = 1
    pre = ("backup", "rename", "remove", "open_pre", "close_pre")
    for k in (idx[::2] if quick else idx):
        wdk = os.path.join(base, "k%d" % k)
        os.makedirs(wdk, exist_ok=True)
        rk, _ = rep_writer(wdk, nsteps, crash_at=k)
        if rk.get("op") != "crash":
            shutil.rmtree(wdk, ignore_errors=True)
            continue
        done = ops[:k - 1] if ops[k - 1]["op"] in pre else ops[:k]
        p = os.path.join(wdk, REP_STATE)
        ok = 1 if (os.path.exists(p) and open(p).read() in versions) else 0
        events += [{"e": "Reset"}] + rep_events(done) + [{"e": "crash"}, {"e": "peer", "ok": ok}]
        nexec += 1
        ctx.nontriv(["replica-crash", k])
        shutil.rmtree(wdk, ignore_errors=True)
    shutil.rmtree(wd, ignore_errors=True)
    ctx.sample({"published_state_protocol": [(e["e"], e.get("n")) for e in rep_events(ops)][:12]})
    vlib.validate_trace(ctx, "ReplicaFileTrace", "ReplicaFileTrace.cfg", events, "published walker state", nexec=nexec, key="replica-protocol-rejected")


def truncation(ctx, quick):
    """Every truncation of a text state at a token boundary and of a binary state at a stride of offsets:
    the loader must return (no crash, no hang); a cut strictly inside an object's block must be an error."""
    d = vlib.Drv()
    d.cmd(op="new", natoms=8)
    d.cmd(op="config", text=CFG)
    for i in range(5):
        d.cmd(op="step", pos=[[0, 0, 0.5 + i]] * 8)
    text = d.cmd(op="save")["state"]
    hexs = d.cmd(op="save", fmt="bin")["hex"]
    d.close()
    # block structure of the text document: top-level blocks "name {" ... "}" at depth 0
    toks = [(m.start(), m.end(), m.group()) for m in re.finditer(r"\S+", text)]
    depth, blocks, start = 0, [], None
    for a, b, t in toks:
        if t == "{":
            if depth == 0:
                start = a
            depth += 1
        elif t == "}":
            depth -= 1
            if depth == 0:
                blocks.append((start, b))
    blocks = [(a, b) for a, b in blocks if not text[:a].rstrip().endswith("configuration") or text[:a].count("{") > 0]
    cuts = [b for a, b, t in toks]
    if quick:
        cuts = cuts[::3]
    cases = [("text", c) for c in cuts]
    nbin = len(hexs) // 2
    raw = bytes.fromhex(hexs)
    hill_start = raw.find(b"\x04\x00\x00\x00\x00\x00\x00\x00hill") - 8   # the list begins after the last grid value
    stride = 7 if quick else 1
    cases += [("bin", c) for c in range(0, nbin, stride)]
    ctx.sample({"text_state_tokens": len(toks), "binary_state_bytes": nbin, "top_level_blocks": len(blocks)})

    def inside(c):
        return any(a < c < b for a, b in blocks)

    chunks = [(cases[i::16], text, hexs, blocks) for i in range(16)]
    res = vlib.parallel_map(trunc_chunk, chunks, 16)
    for chunk in res:
        for kind, c, outcome in chunk:
            ctx.evaluations += 1
            if outcome == "died":
                ctx.violation("truncated-state-crash", "loading a %s state truncated at byte %d terminated the process" % (kind, c), {"kind": kind, "cut": c})
            elif kind == "text" and inside(c) and outcome == "accepted":
                ctx.violation("truncated-state-accepted", "a text state cut at byte %d, strictly inside an object's block, was accepted without error" % c,
                              {"cut": c, "context": text[max(0, c - 80):c]})
            elif kind == "bin" and 16 <= c < nbin and outcome == "accepted":
                if c >= hill_start > 0:
                    ctx.violation("binary-truncated-hills-accepted", KNOWN["binary-truncated-hills-accepted"] + " (byte %d of %d)" % (c, nbin), {"cut": c})
                else:
                    ctx.violation("truncated-binary-accepted", "a binary state truncated at byte %d of %d was accepted without error" % (c, nbin), {"cut": c})
            if kind == "text" and inside(c):
                ctx.nontriv(["cut", c])
    vlib.log("truncation: %d cuts" % len(cases))


def trunc_chunk(args):
    cases, text, hexs, blocks = args
    out = []
    d = vlib.Drv()
    try:
        for kind, c in cases:
            d.cmd(op="new", natoms=8)
            d.cmd(op="config", text=CFG)
            if kind == "text":
                r = d.cmd(op="load", fmt="text", state=text[:c])
            else:
                r = d.cmd(op="load", fmt="bin", hex=hexs[:2 * c])
            if r.get("op") in ("died", "terminate", "exception"):
                out.append((kind, c, "died"))
                d.close()
                d = vlib.Drv()
                continue
            s = d.cmd(op="step", pos=[[0, 0, 1.5]] * 8)
            if s.get("op") != "step":
                out.append((kind, c, "died"))
                d.close()
                d = vlib.Drv()
                continue
            out.append((kind, c, "accepted" if (r.get("rc") == 0 and r.get("err") == 0) else "error"))
            d.cmd(op="destroy")
    finally:
        d.close()
    return out


def run(ctx):
    ctx.rule = ("crash points = every file operation of three consecutive state writes x every file operation of the next process's first write; "
                "stream cases = every sequence of <= 2 typed items (10 kinds, lengths 0..2) x {intact, cut at every byte, length prefix 0/n-1/n+1/2^61}; "
                "non-trivial = a crash point after the first complete write, or a cut strictly inside an object's block; distinct by position")
    ctx.assumptions = [
        "a killed process loses unflushed stream buffers (crash = _exit without destructors); a partially flushed file is represented by byte-level truncation",
        "file operations are observed through the proxy's virtual file interface (backup_file, rename_file, output_stream, close_output_stream)",
        "random bit flips are not enumerated: only cuts and structured corruptions of length prefixes",
    ]
    vlib.build()
    quick = ctx.quick()
    r = vlib.tlc("MCStateFile", "MCStateFile_strict.cfg", workers=4, timeout=600)
    ctx.add_tlc(r, "StateFile protocol (strict guarantees)")
    if r.violation:
        ctx.violation("model:" + r.violation, "StateFile.tla violates %s" % r.violation, {"tlc": vlib.counterexample(r)})
    r = vlib.tlc("MCStateFile", "MCStateFile_full.cfg", workers=4, timeout=600)
    ctx.add_tlc(r, "StateFile protocol (full property)")
    if r.violation:
        acts = re.findall(r"State \d+: <(\w+) line", r.out)
        ctx.violation("backup-overwrites-only-complete-state", KNOWN["backup-overwrites-only-complete-state"] + " (model: %s)" % " ; ".join(acts), {"actions": acts})
    crash_replay(ctx, quick)
    # binary stream
    g = vlib.tlc("MCMemStream", "MCMemStream.cfg", workers=8, timeout=900)
    ctx.add_tlc(g, "MemStream cases (<= 2 items, all cuts and corrupted prefixes)")
    if g.violation:
        ctx.violation("model:" + g.violation, "MemStream.tla violates %s" % g.violation, {"tlc": vlib.counterexample(g)})
    g3 = vlib.tlc("MCMemStream", "MCMemStream3.cfg", workers=8, timeout=900)
    ctx.add_tlc(g3, "MemStream arithmetic (<= 3 items)")
    cases = g.beh
    if quick:
        rng = random.Random(ctx.seed)
        rng.shuffle(cases)
        cases = cases[:5000]
    for c in cases[:2]:
        ctx.sample(c)
    for c in cases:
        if c["mut"]["t"] != "none":
            ctx.nontriv(["ms", c["items"], c["mut"]])

    def on(status, info, beh):
        ctx.violation("memstream-mismatch", "binary stream: %s (items %s, mutation %s)" % (info["fields"][0], json.dumps(beh["items"]), json.dumps(beh["mut"])), {"case": beh})
    vlib.replay_parallel(ctx, cases, memstream_chunk, on, "memstream")
    vlib.replay_parallel(ctx, [dict(c, _prefill=True) for c in cases], memstream_chunk, on, "memstream (destinations already holding data)")
    truncation(ctx, quick)
    replica_protocol(ctx, quick)


def replay(ctx, path):
    run(ctx)
