"""C13: defining then deleting objects is the identity; dependencies stay consistent.
spec/Deps.tla (transcription of colvardeps.cpp), MCDeps (life cycles on the real tables, macros recorded at
check time), DepsTrace (validation of every recorded outermost dependency operation)."""
import json, os, re, random
import vlib
from vlib import close

CV = """colvar {
  name %s
  width 1.0
%s  distanceZ {
    main { atomNumbers %d }
    ref { dummyAtom (0,0,0) }
    axis (0,0,1)
  }
}
"""


def cv_text(name="z", atom=1, extra=""):
    return CV % (name, extra, atom)


def bias_text(kind, name, cvs, tsf=1, extra=""):
    body = {"harmonic": "  centers %s\n  forceConstant 2.0\n" % " ".join(["1.0"] * len(cvs)),
            "linear": "  centers %s\n  forceConstant 1.0\n" % " ".join(["0.0"] * len(cvs)),
            "harmonicWalls": "  upperWalls %s\n  upperWallConstant 2.0\n" % " ".join(["2.0"] * len(cvs)),
            "histogram": "",
            "abf": "  fullSamples 2\n",
            "metadynamics": "  hillWeight 0.5\n  hillWidth 2.0\n  newHillFrequency 2\n"}[kind]
    return "%s {\n  name %s\n  colvars %s\n%s%s%s}\n" % (kind, name, " ".join(cvs), body,
                                                       ("  timeStepFactor %d\n" % tsf) if tsf > 1 else "", extra)


class Rec:
    """Drives simdrv with the dependency recorder on; collects events with checkpoint marks."""

    def __init__(self):
        self.d = vlib.Drv()
        self.d.cmd(op="depsrec", on=True)
        self.events = []
        self.tables = []

    def do(self, **c):
        r = self.d.send(c)
        self.flush()
        return r

    def flush(self, cp=1):
        r = self.d.cmd(op="depsevents")
        if r.get("op") == "died":
            return []
        ev = r["events"]
        for e in ev:
            e["cp"] = 0
        if ev:
            ev[-1]["cp"] = cp
        self.events.extend(ev)
        self.tables = r["tables"]
        return ev

    def close(self):
        self.d.close()


def record_macros(ctx):
    """Base world (one variable) and the primitive-operation lists of bias creation and deletion."""
    rec = Rec()
    rec.do(op="new", natoms=8)
    r = rec.do(op="config", text=cv_text("z", 1, "  lowerBoundary 0.0\n  upperBoundary 4.0\n"))
    if r.get("rc") != 0:
        raise vlib.MachineryError("base config rejected: %s" % r)
    rec.do(op="step", pos=[[0, 0, 1.5]] * 8)
    base = rec.events[-1]["post"]
    n0 = len(rec.events)
    r = rec.do(op="config", text=bias_text("harmonic", "h1", ["z"]))
    create = rec.events[n0:]
    bias_ids = set(e["o"] for e in create) - set(q["id"] for q in base)
    if len(bias_ids) != 1:
        raise vlib.MachineryError("could not identify the bias object in the recorded creation: %s" % bias_ids)
    bid = bias_ids.pop()
    var_ids = set(e["other"] for e in create if e["op"] == "add_child")
    vid = var_ids.pop()
    bpost = [q for q in create[-1]["post"] if q["id"] == bid][0]
    rec.do(op="step", pos=[[0, 0, 1.5]] * 8)
    n1 = len(rec.events)
    rec.do(op="script", args=["cv", "bias", "h1", "delete"])
    delete = rec.events[n1:]
    rec.close()
    strip = lambda evs: [{"op": e["op"], "a": e["a"], "b": e["b"], "c": e["c"]} for e in evs if e["o"] == bid]
    creates, avail = {"harmonic": strip(create)}, {"harmonic": [s[0] for s in bpost["fs"]]}
    for kind in ("linear", "histogram"):
        rk = Rec()
        rk.do(op="new", natoms=8)
        rk.do(op="config", text=cv_text("z", 1, "  lowerBoundary 0.0\n  upperBoundary 4.0\n"))
        rk.do(op="step", pos=[[0, 0, 1.5]] * 8)
        nk = len(rk.events)
        rk.do(op="config", text=bias_text(kind, "k1", ["z"]))
        evk = rk.events[nk:]
        bk = (set(e["o"] for e in evk) - set(q["id"] for q in base)).pop()
        creates[kind] = [{"op": e["op"], "a": e["a"], "b": e["b"], "c": e["c"]} for e in evk if e["o"] == bk]
        avail[kind] = [s[0] for s in [q for q in evk[-1]["post"] if q["id"] == bk][0]["fs"]]
        rk.close()
    foreign = [e for e in create + delete if e["o"] != bid]
    if foreign:
        raise vlib.MachineryError("bias creation/deletion performs outermost dependency operations on other objects: %s" % foreign[:2])
    return {"base": base, "var": vid, "biaskind": bpost["kind"], "biasavail": [s[0] for s in bpost["fs"]],
            "create": strip(create), "delete": strip(delete), "tsfs": [1, 2, 3], "creates": creates, "avail": avail}, rec.tables


KNOWN = {
    "delete-last-bias-deactivates-variable":
        "a variable's \"active\" is enabled at top level without a reference; deleting the last bias that referenced it drops the count to 0 and auto-disables it: the variable is no longer computed (stale value in queries and trajectory)",
    "delete-asleep-bias":
        "deleting a bias while it is asleep (timeStepFactor > 1, odd step) dereferences its children requirements a second time (colvarbias::clear -> free_children_deps): a capability still needed by another bias is switched off",
}

ENVF = {}


def mc_runs(ctx, macros, tables):
    mp = os.path.join(ctx.workdir, "macros.ndjson")
    tp = os.path.join(ctx.workdir, "tables.ndjson")
    vlib.write_ndjson(mp, [macros])
    vlib.write_ndjson(tp, tables)
    env = {"MACROS": mp, "TABLES": tp}
    ENVF.update(env)
    r = vlib.tlc("MCDeps", "MCDeps.cfg" if ctx.quick() else "MCDeps_thorough.cfg", workers=16, env=env, timeout=3000)
    ctx.add_tlc(r, "MCDeps strict (real tables)")
    if r.violation:
        ctx.violation("model:" + r.violation, "dependency invariant %s violated for a bias life cycle on the real tables" % r.violation,
                      {"actions": re.findall(r"State \d+: <(\w+\(?[^ ]*\)?) line", r.out), "tlc": vlib.counterexample(r)[-6000:]})
    for cfg, inv_expected, key in (("MCDeps_noloss.cfg", "NoLoss", "delete-last-bias-deactivates-variable"),
                                   ("MCDeps_asleep.cfg", None, "delete-asleep-bias")):
        r = vlib.tlc("MCDeps", cfg, workers=16, env=env, timeout=1200)
        ctx.add_tlc(r, "MCDeps " + cfg)
        if r.violation:
            acts = re.findall(r"State \d+: <(\w+)(\([^)]*\))? line", r.out)
            ctx.violation(key, KNOWN[key] + " (model: %s violated after %s)" % (r.violation, " ; ".join(a + b for a, b in acts)),
                          {"actions": acts})


def objs_of(events, tables):
    objs = {}
    for e in events:
        if e.get("op") == "Reset":
            continue
        for q in e["post"]:
            objs[q["id"]] = q["kind"]
        objs.setdefault(e["o"], None)
        if e.get("other"):
            objs.setdefault(e["other"], None)
    return [{"id": k, "kind": v or tables[0]["kind"]} for k, v in sorted(objs.items())]


def validate(ctx, events, tables, what, nexec):
    tp = os.path.join(ctx.workdir, "tables_%s.ndjson" % what)
    op = os.path.join(ctx.workdir, "objs_%s.ndjson" % what)
    vlib.write_ndjson(tp, tables)
    vlib.write_ndjson(op, objs_of(events, tables))
    return vlib.validate_trace(ctx, "DepsTrace", "DepsTrace.cfg", events, what, env={"TABLES": tp, "OBJS": op}, nexec=nexec)


def lifecycle_trace(ctx, seed, nops, allow_asleep_delete=False, record=True):
    """Random life cycle in the real module with the recorder on.  Returns (events, tables, log of actions)."""
    rng = random.Random(seed)
    rec = Rec()
    if not record:
        rec.d.cmd(op="depsrec", on=False)
        rec.flush = lambda cp=1: []
    acts = []
    lev = []
    def listed(ev):
        a = rec.d.cmd(op="script", args=["cv", "list"]).get("res", "").split()
        b = rec.d.cmd(op="script", args=["cv", "list", "biases"]).get("res", "").split()
        ev["cvs"], ev["biases"] = a, b
        lev.append(ev)
    rec.do(op="new", natoms=8)
    cvs, biases = {}, {}
    it = 0
    ncv = nb = 0
    pos = lambda: [[0.0, 0.0, rng.choice([0.5, 1.5, 2.5, 3.5])] for _ in range(8)]
    for k in range(nops):
        u = rng.random()
        if not cvs or (u < 0.12 and len(cvs) < 3):
            ncv += 1
            name = "v%d" % ncv
            extra = "  lowerBoundary 0.0\n  upperBoundary 4.0\n" + ("  extendedLagrangian on\n  extendedFluctuation 0.5\n  extendedTimeConstant 100\n" if rng.random() < 0.15 else "")
            r = rec.do(op="config", text=cv_text(name, rng.randint(1, 4), extra))
            if r.get("rc") == 0:
                cvs[name] = 1
            acts.append(("addcv", name, r.get("rc")))
            listed({"e": "addcv", "name": name, "rc": 0 if r.get("rc") == 0 else 1})
        elif u < 0.45 and len(biases) < 5:
            nb += 1
            kind = rng.choice(["harmonic", "harmonic", "linear", "harmonicWalls", "histogram", "abf", "metadynamics"])
            on = rng.sample(sorted(cvs), 1 if kind in ("abf",) or rng.random() < 0.7 else min(2, len(cvs)))
            tsf = rng.choice([1, 1, 2, 3]) if kind in ("harmonic", "linear", "harmonicWalls") else 1
            name = "b%d" % nb
            r = rec.do(op="config", text=bias_text(kind, name, on, tsf))
            if r.get("rc") == 0 and r.get("nb", 0) > len(biases):
                biases[name] = (kind, on, tsf)
            acts.append(("addbias", name, kind, on, tsf, r.get("rc")))
            listed({"e": "addbias", "name": name, "on": on, "rc": 0 if name in biases else 1})
        elif u < 0.55 and biases:
            name = rng.choice(sorted(biases))
            tsf = biases[name][2]
            asleep = tsf > 1 and it > 0 and ((it - 1) % tsf != 0)
            if asleep and not allow_asleep_delete:
                continue
            rec.do(op="script", args=["cv", "bias", name, "delete"])
            del biases[name]
            acts.append(("delbias", name))
            listed({"e": "delbias", "name": name})
        elif u < 0.64 and len(cvs) > 1:
            # prefer a variable that carries several biases
            cnt = {c: sum(1 for b in biases.values() if c in b[1]) for c in cvs}
            name = max(sorted(cvs), key=lambda c: (cnt[c] + rng.random()))
            dead = [b for b, v in biases.items() if name in v[1]]
            if any(biases[b][2] > 1 for b in dead) and not allow_asleep_delete:
                continue
            rec.do(op="script", args=["cv", "colvar", name, "delete"])
            del cvs[name]
            for b in dead:
                del biases[b]
            acts.append(("delcv", name, dead))
            listed({"e": "delcv", "name": name})
        elif u < 0.67:
            rec.do(op="script", args=["cv", "reset"])
            cvs, biases = {}, {}
            acts.append(("reset",))
            listed({"e": "reset"})
        else:
            r = rec.do(op="step", pos=pos())
            it = r.get("it", it) + 1 if r.get("op") == "step" else it
            acts.append(("step", r.get("it"), r.get("err")))
            if r.get("op") == "died":
                break
            listed({"e": "step"})
    died = rec.d.dead
    rec.do(op="destroy")
    rec.close()
    return rec.events, rec.tables, acts, lev, died


def asleep_delete_scenario(ctx):
    rec = Rec()
    rec.do(op="new", natoms=8)
    rec.do(op="config", text=cv_text("z", 1))
    rec.do(op="config", text=bias_text("harmonic", "a", ["z"], 1))
    rec.do(op="config", text=bias_text("harmonic", "b", ["z"], 2))
    p = [[0, 0, 3.0]] * 8
    out = []
    for i in range(2):
        out.append(rec.do(op="step", pos=p))
    rec.do(op="script", args=["cv", "bias", "b", "delete"])
    for i in range(2):
        out.append(rec.do(op="step", pos=p))
    rec.close()
    return rec.events, rec.tables, out


def identity_replay(ctx, n):
    """Observable identity: after add X; delete X the survivors behave as if X had never existed."""
    rng = random.Random(ctx.seed + 1313)
    nbad = 0
    for i in range(n):
        d = vlib.Drv()
        e = vlib.Drv()
        try:
            for x in (d, e):
                x.cmd(op="new", natoms=8)
                x.cmd(op="config", text=cv_text("z", 1))
                x.cmd(op="config", text=cv_text("y", 2))
                x.cmd(op="config", text=bias_text("harmonic", "keep", ["z"]))
            steps = [[[0.0, 0.0, rng.choice([0.5, 1.5, 2.5, 3.5])] for _ in range(8)] for _ in range(6)]
            kind = rng.choice(["harmonic", "linear", "harmonicWalls", "histogram", "abf", "metadynamics"])
            target = rng.choice([["z"], ["y"], ["z", "y"]]) if kind != "abf" else [rng.choice(["z", "y"])]
            tsf = rng.choice([1, 1, 2]) if kind in ("harmonic", "linear", "harmonicWalls") else 1
            k_add, k_del = sorted(rng.sample(range(0, 5), 2))
            if tsf > 1 and (k_del - 1) % tsf != 0:
                k_del = k_del + 1 if k_del < 5 else k_del - 1     # delete while awake (the asleep case is a separate, known scenario)
            key = None
            for k, p in enumerate(steps):
                if k == k_add:
                    d.cmd(op="config", text=bias_text(kind, "X", target, tsf))
                if k == k_del and k_del > k_add:
                    d.cmd(op="script", args=["cv", "bias", "X", "delete"])
                rd = d.cmd(op="step", pos=p)
                re_ = e.cmd(op="step", pos=p)
                ctx.evaluations += 1
                if k >= k_del > k_add:
                    ctx.nontriv(["identity", kind, target, tsf, k_add, k_del])
                    same = (rd.get("fat") == re_.get("fat") and rd["biases"].get("keep") == re_["biases"].get("keep")
                            and rd["cvs"]["z"]["x"] == re_["cvs"]["z"]["x"] and rd["cvs"]["y"]["x"] == re_["cvs"]["y"]["x"]
                            and rd.get("nactive") == re_.get("nactive"))
                    if not same:
                        inactive = [c for c in ("z", "y") if rd["cvs"][c]["active"] == 0 and re_["cvs"][c]["active"] == 1]
                        lost_last = [c for c in inactive if c in target and not (c == "z")]
                        if inactive and all(c in target for c in inactive) and rd.get("fat") == re_.get("fat") and rd["biases"].get("keep") == re_["biases"].get("keep"):
                            key = "delete-last-bias-deactivates-variable"
                        else:
                            key = "identity-mismatch"
                        ctx.violation(key, (KNOWN.get(key, "after add X; delete X the surviving objects differ from a module that never had X") +
                                            " (bias %s on %s added before step %d, deleted before step %d; step %d: %s vs %s)" % (kind, target, k_add, k_del, k, json.dumps(rd["cvs"]), json.dumps(re_["cvs"]))),
                                      {"kind": kind, "target": target, "tsf": tsf, "k_add": k_add, "k_del": k_del, "step": k, "with": rd, "without": re_})
                        nbad += 1
                        break
            ctx.traces += 1
        finally:
            d.close()
            e.close()
    vlib.log("identity replay: %d life cycles, %d differing" % (n, nbad))


def run(ctx):
    ctx.rule = ("model: every order of create(bias, timeStepFactor) / step (sleep, wake) / delete for two biases on the real dependency tables; "
                "traces: seeded random life cycles (add variable, add bias of 6 kinds, delete bias, delete variable, reset, step) with every outermost "
                "dependency operation validated; non-trivial = a life cycle in which an object is deleted and steps follow; distinct by its action list")
    ctx.assumptions = [
        "hook 1 (COLVARS_VERIF) reports only OUTERMOST dependency operations; nested calls are the algorithm under test and are performed by the specification",
        "availability flags are also set by direct assignment in the code; they are bound from the log before each operation",
        "bias creation/deletion macros used by MCDeps are recorded from the running implementation at check time",
    ]
    vlib.build()
    quick = ctx.quick()
    macros, tables = record_macros(ctx)
    ctx.sample({"create_ops": macros["create"], "delete_ops": macros["delete"]})
    mc_runs(ctx, macros, tables)
    # trace validation of random life cycles on the real tables
    allev, alltab, nexec, alllev = [], [], 0, []
    r = vlib.tlc("Lifecycle", "MCLifecycle.cfg", workers=4, timeout=600)
    ctx.add_tlc(r, "Lifecycle model")
    if r.violation:
        ctx.violation("model:" + r.violation, "Lifecycle.tla violates %s" % r.violation, {"tlc": vlib.counterexample(r)})
    nrec = 10 if quick else 120
    for i in range(60 if quick else 600):
        ev, tab, acts, lev, died = lifecycle_trace(ctx, ctx.seed * 100 + i, 16 if quick else 24, record=(i < nrec))
        if died:
            ctx.violation("crash", "the module died (signal %s) during a life cycle: %s" % (died.get("signal"), acts[-4:]), {"acts": acts})
        alllev.append({"e": "Reset"})
        alllev.extend(lev)
        if any(a[0] in ("delbias", "delcv", "reset") for a in acts):
            ctx.nontriv([a[:2] for a in acts])
        if i == 0:
            ctx.sample({"life_cycle": acts[:10]})
        nexec += 1
        if i >= nrec:
            continue
        # object ids are per process: offset them so that executions can be concatenated
        off = 1000 * (i + 1)
        for e in ev:
            e["o"] += off
            if e["other"]:
                e["other"] += off
            for q in e["post"]:
                q["id"] += off
                q["ch"] = [c + off if c > 0 else c for c in q["ch"]]
        allev.append({"op": "Reset", "o": 0, "a": 0, "b": 0, "c": 0, "other": 0, "post": [], "cp": 0})
        allev.extend(ev)
        if len(tab) > len(alltab):
            alltab = tab
    if quick:
        validate(ctx, allev, alltab, "lifecycles", nrec)
    else:
        # one TLC run per group of ten executions, eight at a time (a single trace of 120 life cycles takes TLC too long)
        groups, cur, n = [], [], 0
        for e in allev:
            if e.get("op") == "Reset":
                if n and n % 10 == 0:
                    groups.append(cur)
                    cur = []
                n += 1
            cur.append(e)
        if cur:
            groups.append(cur)
        from concurrent.futures import ThreadPoolExecutor
        with ThreadPoolExecutor(8) as ex:
            list(ex.map(lambda ge: validate(ctx, ge[1], alltab, "lifecycles%d" % ge[0], sum(1 for x in ge[1] if x.get("op") == "Reset")), enumerate(groups)))
    vlib.validate_trace(ctx, "LifecycleTrace", "LifecycleTrace.cfg", alllev, "object-lists", nexec=nexec, key="lifecycle-object-list")
    # the known asleep-deletion scenario: the recorded trace must still follow the algorithm, and violates I2/I5
    ev, tab, out = asleep_delete_scenario(ctx)
    r = validate_known(ctx, ev, tab)
    identity_replay(ctx, 30 if quick else 400)


def validate_known(ctx, ev, tab):
    sub = vlib.Ctx(ctx.pid, ctx.tier, ctx.seed)
    sub.workdir = ctx.workdir
    sub.kf = {}
    validate(sub, ev, tab, "asleep-delete", 1)
    ctx.states += sub.states
    ctx.transitions += sub.transitions
    ctx.cmds += sub.cmds
    ctx.traces += sub.traces
    for key, desc, payload in sub.violations:
        if key.startswith("trace-invariant:Inv"):
            ctx.violation("delete-asleep-bias", KNOWN["delete-asleep-bias"] + " (recorded execution: %s)" % key, payload)
        else:
            ctx.violation(key, desc, payload)


def replay(ctx, path):
    run(ctx)
