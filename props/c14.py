"""C14: multiple-walker sharing combines every walker's data exactly once.
spec/AbfShared.tla (shared ABF: delta exchange through walker 1 as a blocking collective, restart at an exchange boundary)
and spec/MetaWalkers.tla (file-based hill exchange with read cursors and partially written peer files).  TLC checks the
history-based property over all interleavings up to the bound and generates interleaved behaviours; each behaviour is
replayed with one real process per walker driven by a coordinator (socket pairs for the collective; per-reader view
directories holding the generated prefixes of the peers' files)."""
import json, os, re, random, shutil, socket
import vlib
from vlib import close

NB = 2


def abf_config(nb, freq):
    return ("colvar {\n  name z\n  width 1.0\n  lowerBoundary 0.0\n  upperBoundary %d.0\n  distanceZ {\n    main { atomNumbers 1 }\n    ref { dummyAtom (0,0,0) }\n"
            "    axis (0,0,1)\n    oneSiteTotalForce on\n  }\n}\n"
            "abf {\n  name a\n  colvars z\n  fullSamples 100000\n  integrate off\n  shared on\n  sharedFreq %d\n}\n") % (nb, freq)


def parse_shared_state(state):
    out = {}
    lines = state.split("\n")
    for key in ("samples", "gradient", "local_samples", "local_gradient"):
        vals = None
        for i, l in enumerate(lines):
            if l.strip() == key:
                vals = []
                for m in lines[i + 1:]:
                    t = m.split()
                    if not t:
                        if vals:
                            break
                        continue
                    try:
                        vals += [float(x) for x in t]
                    except ValueError:
                        break
                break
        out[key] = vals
    return out


class Walkers:
    def __init__(self, W, nb, freq, wd):
        self.W, self.nb, self.freq, self.wd = W, nb, freq, wd
        self.socks = []
        self.d = []
        fds = [[-1] * W for _ in range(W)]
        for p in range(1, W):
            a, b = socket.socketpair()
            a.set_inheritable(True)
            b.set_inheritable(True)
            self.socks += [a, b]
            fds[0][p] = a.fileno()
            fds[p][0] = b.fileno()
        self.fds = fds
        for w in range(W):
            keep = tuple(f for f in fds[w] if f >= 0)
            dw = os.path.join(wd, "w%d" % w)
            os.makedirs(dw, exist_ok=True)
            self.d.append(vlib.Drv(cwd=dw, env={"_fds": keep}, timeout=30))
        self.pending = [False] * W
        for w in range(W):
            self.start(w)

    def start(self, w, state=None):
        d = self.d[w]
        r = d.cmd(op="new", natoms=2, prefix="o", replica={"index": w, "num": self.W, "fdin": self.fds[w], "fdout": self.fds[w]})
        r = d.cmd(op="config", text=abf_config(self.nb, self.freq))
        if r.get("rc") != 0:
            raise vlib.MachineryError("C14 ABF config rejected: %s" % r.get("errtext"))
        if state is not None:
            r = d.cmd(op="load", state=state)
            if r.get("rc") != 0:
                raise vlib.MachineryError("C14 state load failed: %s" % r)

    def wait(self, w):
        if self.pending[w]:
            r = self.d[w].collect()
            self.pending[w] = False
            return r
        return None

    def step(self, w, b, v, blocking):
        self.wait(w)
        c = {"op": "step", "pos": [[0, 0, b + 0.5], [0, 0, 0]], "sys": [[0, 0, float(v)], [0, 0, 0]]}
        if blocking:
            self.d[w].post(c)
            self.pending[w] = True
            return None
        return self.d[w].send(c)

    def restart(self, w):
        self.wait(w)
        st = self.d[w].cmd(op="save")["state"]
        self.d[w].cmd(op="destroy")
        self.start(w, st)

    def states(self):
        out = []
        for w in range(self.W):
            r = self.wait(w)
            if r is not None and r.get("op") == "died":
                return None
            st = self.d[w].cmd(op="save")
            if st.get("op") == "died":
                return None
            out.append(parse_shared_state(st["state"]))
        return out

    def close(self):
        for d in self.d:
            d.close()
        for s in self.socks:
            s.close()


def replay_abf(beh, wd):
    """Replays the interleaving; compares every walker's grids at the end (all walkers idle in the model)."""
    W, nb, freq = beh["W"], beh["nb"], beh["freq"]
    ws = Walkers(W, nb, freq, wd)
    try:
        for h in beh["hist"]:
            w = h["w"] - 1
            if h["a"] == "Step":
                r = ws.step(w, h["b"], h["v"], blocking=not h["done"])
                if r is not None and r.get("op") == "died":
                    return {"key": "crash", "what": "walker %d died" % (w + 1)}
            elif h["a"] == "Restart":
                ws.restart(w)
            # "Done": the blocked step completes inside the real processes on its own
        sts = ws.states()
        if sts is None:
            return {"key": "crash", "what": "a walker died or did not complete the exchange"}
        dev = None
        for w in range(W):
            fix = lambda x: {int(k): v for k, v in x.items()} if isinstance(x, dict) else dict(enumerate(x))
            eg, el = fix(beh["g"][w]), fix(beh["loc"][w])
            dg, dl = fix(beh["dg"][w]), fix(beh["dl"][w])
            st = sts[w]
            if st["samples"] is None or st["local_samples"] is None:
                return {"key": "state", "what": "walker %d: state has no shared-ABF grids" % (w + 1)}
            for b in range(nb):
                ge, le = eg[b], el[b]
                if int(st["samples"][b]) != ge["c"]:
                    return {"key": "global-count", "what": "walker %d bin %d: samples %d, mechanism %d (property %d)" % (w + 1, b, st["samples"][b], ge["c"], dg[b]["c"])}
                gm = -ge["s"] / float(ge["c"]) if ge["c"] else 0.0   # the grid stores the free-energy gradient: minus the mean force
                if not close(st["gradient"][b], gm):
                    return {"key": "global-gradient", "what": "walker %d bin %d: gradient %r, mechanism %r" % (w + 1, b, st["gradient"][b], gm)}
                if int(st["local_samples"][b]) != le["c"]:
                    return {"key": "local-count", "what": "walker %d bin %d: local samples %d, mechanism %d (property %d)" % (w + 1, b, st["local_samples"][b], le["c"], dl[b]["c"])}
                lm = -le["s"] / float(le["c"]) if le["c"] else 0.0
                if not close(st["local_gradient"][b], lm):
                    return {"key": "local-gradient", "what": "walker %d bin %d: local gradient %r, mechanism %r" % (w + 1, b, st["local_gradient"][b], lm)}
                # the real code agrees with the mechanism; where the mechanism differs from the property, it is a named deviation
                if (ge != dg[b] or le != dl[b]) and dev is None:
                    dev = {"key": "dev:" + ("+".join(sorted(beh["q"])) or "unnamed"),
                           "what": "walker %d bin %d holds %d samples (own part %d); every walker's samples counted once would be %d (own part %d)" % (
                               w + 1, b, ge["c"], le["c"], dg[b]["c"], dl[b]["c"])}
        return dev
    finally:
        ws.close()


def abf_chunk(args):
    behs, seed, wd = args
    out = []
    for i, b in enumerate(behs):
        w = os.path.join(wd, "b%d_%d" % (seed, i))
        try:
            bad = replay_abf(b, w)
        finally:
            shutil.rmtree(w, ignore_errors=True)
        out.append(("ok", None, None) if bad is None else ("mismatch", bad, b))
    return out


# ---------------------------------------------------------------------------- multiple-walker metadynamics
MW_U, MW_R = 2, 4


def mw_config(w):
    return ("colvar {\n  name z\n  width 0.5\n  lowerBoundary -4\n  upperBoundary 4\n  distanceZ {\n    main { atomNumbers 1 }\n    ref { dummyAtom (0,0,0) }\n  }\n}\n"
            "metadynamics {\n  name m\n  colvars z\n  hillWeight 1.0\n  hillWidth 1.6986436005760382\n  newHillFrequency 1\n  multipleReplicas on\n  replicaID w%d\n"
            "  replicasRegistry reg.txt\n  replicaUpdateFrequency %d\n}\n") % (w, MW_U)


def hill_records(text):
    """(steps of the complete hill records, whether an incomplete record follows)."""
    recs = [int(m.group(1)) for m in re.finditer(r"hill\s*\{\s*step\s+(\d+)[^}]*\}", text)]
    rest = text[text.rfind("}") + 1:] if "}" in text else text
    return recs, bool(rest.strip())


def record_mw(seed, wd, nsteps, cut_mode):
    """Two real walkers interleaved at random; before each step the reader's view of the peer is refreshed with a prefix of the
    peer's files (cut_mode: 'none' full copy, 'record' prefix ending at a record boundary, 'byte' prefix ending anywhere)."""
    rng = random.Random(seed)
    events = [{"e": "Reset"}]
    ds = []
    try:
        for w in (1, 2):
            d = os.path.join(wd, "w%d" % w)
            os.makedirs(os.path.join(d, "view"), exist_ok=True)
            ds.append(vlib.Drv(cwd=d, timeout=30))
        for i, d in enumerate(ds):
            d.cmd(op="new", natoms=2, prefix="o", restartFreq=MW_R, trajFreq=0, keepRemoved=True)
            r = d.cmd(op="config", text=mw_config(i + 1))
            if r.get("rc") != 0:
                raise vlib.MachineryError("C14 metadynamics config rejected: %s" % r.get("errtext"))
        pos = {1: [], 2: []}
        stepped = {1: 0, 2: 0}
        repeat = {1: False, 2: False}
        window = {1: False, 2: False}     # the walker's latest action wrote a snapshot (and removed its old hills file)
        prev_state = {}
        for k in range(nsteps):
            w = rng.choice([1, 2])
            v = 3 - w
            if stepped[w] >= 2 and rng.random() < 0.07:
                # stop this walker, save its state, start a new process image, load the state, set up the output
                d = ds[w - 1]
                st = d.cmd(op="save")["state"]
                d.cmd(op="destroy")
                d.cmd(op="new", natoms=2, prefix="o", restartFreq=MW_R, trajFreq=0, keepRemoved=True)
                r = d.cmd(op="config", text=mw_config(w), finish=False)
                r2 = d.cmd(op="load", state=st)
                r3 = d.cmd(op="setupout")
                if r.get("rc") != 0 or r2.get("rc") != 0 or r3.get("rc") != 0:
                    raise vlib.MachineryError("C14 restart of a metadynamics walker failed: %s %s %s" % (r, r2, r3))
                events.append({"e": "Restart", "w": w})
                window[w] = True
                prev_state[w] = open(os.path.join(wd, "w%d" % w, "o.colvars.m.w%d.state" % w)).read()
                stepped[w] = 0
                repeat[w] = True    # the last step is repeated: the engine presents the same position again
                continue
            rd, pd = os.path.join(wd, "w%d" % w), os.path.join(wd, "w%d" % v)
            view = os.path.join(rd, "view")
            # the peer's snapshot as it is on disk, and a prefix of its hills file
            st_src = os.path.join(pd, "o.colvars.m.w%d.state" % v)
            hl_src = os.path.join(pd, "o.colvars.m.w%d.hills" % v)
            shutil.copy(st_src, os.path.join(view, "w%d.state" % v))
            full = open(hl_src).read() if os.path.exists(hl_src) else ""
            # the reader may run INSIDE the peer's snapshot (after the rename of the new state file, before the removal of
            # the old hills file): it is then shown the new snapshot with (a prefix of) the hills file that was removed
            stale = window[v] and os.path.exists(hl_src + ".removed") and rng.random() < 0.6
            if stale:
                full = open(hl_src + ".removed").read()
            cut = len(full)
            if cut_mode != "none" and full and rng.random() < 0.5:
                if cut_mode == "record":
                    ends = [m.end() for m in re.finditer(r"\}\s*\n", full)]
                    cut = rng.choice([0] + ends)
                else:
                    cut = rng.randrange(len(full) + 1)
            open(os.path.join(view, "w%d.hills" % v), "w").write(full[:cut])
            recs, partial = hill_records(full[:cut])
            m = re.search(r"\n\s*step\s+(\d+)", open(st_src).read())
            sstep = int(m.group(1)) if m else 0
            open(os.path.join(view, "w%d.files.txt" % v), "w").write("stateFile %s\nhillsFile %s\n" % (os.path.join(view, "w%d.state" % v), os.path.join(view, "w%d.hills" % v)))
            reg = open(os.path.join(rd, "reg.txt")).read()
            if ("w%d " % v) not in reg:
                open(os.path.join(rd, "reg.txt"), "a").write("w%d %s\n" % (v, os.path.join(view, "w%d.files.txt" % v)))
            if repeat[w]:
                x = pos[w][-1]
                repeat[w] = False
            else:
                x = rng.randint(-2, 2)
                pos[w].append(x)
            stepped[w] += 1
            d = ds[w - 1]
            d.cmd(op="log")
            r = d.cmd(op="step", pos=[[0, 0, 0.25 + 0.5 * x], [0, 0, 0]])
            if r.get("op") != "step":
                events.append({"e": "Died", "w": w})
                break
            own_state = os.path.join(rd, "o.colvars.m.w%d.state" % w)
            cur = open(own_state).read() if os.path.exists(own_state) else ""
            window[w] = (cur != prev_state.get(w, cur)) if w in prev_state else False
            prev_state[w] = cur
            lg = d.cmd(op="log")["text"]
            recv = [int(t) for t in re.findall(r'received a hill from replica "w%d" at step (\d+)' % v, lg)]
            resync = ('reading the state of replica "w%d"' % v) in lg
            E = r["E"] * 65536.0
            events.append({"e": "Step", "w": w, "t": r["it"], "x": x, "view": {"n": len(recs), "recs": recs, "partial": partial, "sstep": sstep, "stale": bool(stale)},
                           "recv": recv, "resync": resync, "E": int(round(E)) if abs(E - round(E)) < 1e-6 else "offlattice %r" % E,
                           "pos": [pos[1] + [0], pos[2] + [0]], "err": r.get("rc", 0), "errtext": (r.get("errtext") or "")[:160]})
    finally:
        for d in ds:
            d.close()
    return events


def mw_chunk(args):
    seeds, wd, nsteps = args
    out = []
    for sd, mode in seeds:
        w = os.path.join(wd, "mw%d" % sd)
        try:
            out.append((sd, mode, record_mw(sd, w, nsteps, mode)))
        finally:
            shutil.rmtree(w, ignore_errors=True)
    return out


def run(ctx):
    ctx.rule = ("behaviours = interleavings of engine steps of 2-3 walkers (each presenting a bin and receiving a force), blocking exchanges every 2 steps, restarts of a walker at an exchange boundary; "
                "non-trivial = a behaviour in which at least one exchange completed and some walker holds samples of another")
    ctx.assumptions = [
        "one process per walker; the collective of shared ABF runs over socket pairs through the proxy's replica_comm_send/recv; a walker's step that exchanges is posted without waiting so that the processes interleave as the model prescribes",
        "grids are observed through each walker's saved state (samples, gradient, local_samples, local_gradient)",
    ]
    vlib.build()
    quick = ctx.quick()
    r = vlib.tlc("MCAbfShared", "MCAbfShared.cfg" if quick else "MCAbfShared_thorough.cfg", workers=16, timeout=3000, xmx="24g", extra=["-view"] if False else None)
    ctx.add_tlc(r, "MCAbfShared properties (outside named deviations)")
    if r.violation:
        ctx.violation("abf:model:" + r.violation, "AbfShared.tla violates %s" % r.violation, {"tlc": vlib.counterexample(r)})
        return
    full = vlib.tlc("MCAbfShared", "MCAbfShared_full.cfg", workers=16, timeout=900)
    ctx.add_tlc(full, "MCAbfShared full property")
    if full.violation:
        ctx.notes.append("AbfShared.tla: the full property is violated by the mechanism (named deviation restart-drops-unshared-samples); TLC's shortest history: %s" % vlib.counterexample(full)[-600:])
    behs = []
    sims = [("MCAbfShared_sim.cfg", 60 if quick else 1200), ("MCAbfShared_sim3.cfg", 30 if quick else 600)]
    if not quick:
        sims.append(("MCAbfShared_sim4.cfg", 300))      # four walkers: simulation mode only
    for cfg, n in sims:
        g = vlib.tlc("MCAbfShared", cfg, workers=8, simulate=n, depth=(40 if "sim4" in cfg else 26), seed=ctx.seed, timeout=900)
        ctx.add_tlc(g, "MCAbfShared generation (%s)" % cfg, exhaustive=False)
        behs += g.beh
    ctx.exhaustive = True
    seen, uniq = set(), []
    for b in behs:
        k = json.dumps(b["hist"])
        if k not in seen:
            seen.add(k)
            uniq.append(b)
    behs = uniq
    random.Random(ctx.seed).shuffle(behs)
    behs = behs[:(300 if quick else 5000)]
    for b in behs[:2]:
        ctx.sample({"hist": b["hist"], "g": b["g"]})
    for b in behs:
        if any(h["a"] == "Done" for h in b["hist"]):
            ctx.nontriv(b["hist"])
    wd = os.path.join(ctx.workdir, "abf")
    os.makedirs(wd, exist_ok=True)
    chunks = [(behs[i::12], i, wd) for i in range(12) if behs[i::12]]
    nbad = ndev = 0
    for chunk in vlib.parallel_map(abf_chunk, chunks, 12):
        for status, info, b in chunk:
            ctx.evaluations += 1
            ctx.traces += 1
            if status == "ok":
                continue
            if info["key"].startswith("dev:"):
                ndev += 1
                ctx.violation("abf:" + info["key"][4:], "shared ABF: %s; history %s" % (info["what"], json.dumps(b["hist"])[:500]), {"behaviour": b})
            else:
                nbad += 1
                ctx.violation("abf:" + info["key"], "shared ABF, behaviour %s: %s" % (json.dumps(b["hist"])[:600], info["what"]), {"behaviour": b})
    vlib.log("replayed %d shared-ABF behaviours: %d differ from the mechanism, %d show a named deviation" % (len(behs), nbad, ndev))
    run_meta(ctx)


def run_meta(ctx):
    quick = ctx.quick()
    r = vlib.tlc("MCMetaWalkers", "MCMetaWalkers.cfg" if quick else "MCMetaWalkers_thorough.cfg", workers=16, timeout=3000, xmx="24g")
    ctx.add_tlc(r, "MCMetaWalkers properties (outside named deviations)")
    if r.violation:
        ctx.violation("meta:model:" + r.violation, "MetaWalkers.tla violates %s" % r.violation, {"tlc": vlib.counterexample(r)})
        return
    full = vlib.tlc("MCMetaWalkers", "MCMetaWalkers_full.cfg", workers=16, timeout=900)
    ctx.add_tlc(full, "MCMetaWalkers full property")
    if full.violation:
        ctx.notes.append("MetaWalkers.tla: completeness after every exchange is violated by the mechanism (named deviations); TLC's shortest history: %s" % vlib.counterexample(full)[-500:])
    wd = os.path.join(ctx.workdir, "mw")
    os.makedirs(wd, exist_ok=True)
    n = 12 if quick else 150
    seeds = [(ctx.seed * 1000 + i, ("none", "record", "byte")[i % 3]) for i in range(n)]
    chunks = [(seeds[i::12], wd, 60 if quick else 120) for i in range(12) if seeds[i::12]]
    events = []
    nexec = 0
    for chunk in vlib.parallel_map(mw_chunk, chunks, 12):
        for sd, mode, ev in chunk:
            nexec += 1
            if any(e["e"] == "Died" for e in ev):
                ctx.violation("meta:crash", "a walker process died (seed %d, cut mode %s)" % (sd, mode), {"seed": sd, "mode": mode})
                continue
            events += ev
            ctx.nontriv(["mw", sd, mode])
    res = vlib.validate_trace(ctx, "MetaWalkersTrace", "MetaWalkersTrace.cfg", events, "recorded multiple-walker metadynamics executions", nexec=nexec, key="meta:trace-rejected")
    if res is not None and getattr(res, "accepted", False):
        seen = set()
        for m in re.finditer(r'<<"MISSING", (\d+), \{([^}]*)\}, <<(.*?)>>>>', res.out):
            names = [x.strip().strip('"') for x in m.group(2).split(",") if x.strip()]
            for nm in names or ["unnamed"]:
                if nm not in seen:
                    seen.add(nm)
                    ev = events[int(m.group(1)) - 2] if int(m.group(1)) >= 2 else {}
                    ctx.violation("meta:" + nm, "multiple-walker metadynamics: after an exchange that saw everything the peer had published, walker %s at step %s still lacks the peer's hills %s (recorded execution, event %s)" % (
                        ev.get("w"), ev.get("t"), m.group(3), m.group(1)), {"event": ev})


def replay(ctx, path):
    j = json.load(open(path))
    b = j["payload"].get("behaviour")
    if b:
        vlib.build()
        bad = replay_abf(b, os.path.join(ctx.workdir, "rp"))
        if bad:
            ctx.violation("abf:" + bad["key"], bad["what"], {"behaviour": b})
