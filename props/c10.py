"""C10: invalid parameter values are errors, never fatal; a rejected definition is rolled back.
spec/Params.tla: the module as the set of objects it holds (attempt accepted / rejected, follow-up definition, step);
MCParams enumerates (object type, keyword, boundary value) settings from the table generated out of the templates below;
every case is executed in the real module under a watchdog and an address-space limit next to a module that never saw the
rejected definitions, and the recorded executions are validated by TLC against ParamsTrace."""
import json, os, re, random, resource, shutil
import vlib

NUM = ["0", "-1", "1", "2000000000", "-2000000000", "1e-9", "1e300", "nan", "inf"]
INT = ["0", "-1", "1", "2000000000", "-2000000000"]

# @kw=default@ numeric keyword crossed with NUM; @kw=default|a;b;c@ explicit values; #NAME# object name
TEMPLATES = {
    "module": """colvarsTrajFrequency @colvarsTrajFrequency=1|0;-1;1;2000000000;-2000000000@
colvarsRestartFrequency @colvarsRestartFrequency=2|0;-1;1;2000000000;-2000000000@
""",
    "colvar": """colvar {
  name #NAME#
  width @width=0.5@
  lowerBoundary @lowerBoundary=-2@
  upperBoundary @upperBoundary=2@
  expandBoundaries @expandBoundaries=off|on@
  timeStepFactor @timeStepFactor=1|0;-1;2;2000000000@
  lowerWall @lowerWall=-1.5@
  lowerWallConstant @lowerWallConstant=1.0@
  upperWall @upperWall=1.5@
  upperWallConstant @upperWallConstant=1.0@
  outputAppliedForce on
  runAve on
  runAveLength @runAveLength=2|0;-1;1;2000000000;-2000000000@
  runAveStride @runAveStride=1|0;-1;2;2000000000;-2000000000@
  corrFunc on
  corrFuncLength @corrFuncLength=2|0;-1;1;2000000000;-2000000000@
  corrFuncStride @corrFuncStride=1|0;-1;2;2000000000;-2000000000@
  corrFuncOffset @corrFuncOffset=0|-1;1;2000000000;-2000000000@
  distanceZ {
    main { atomNumbers @atomNumbers=2|0;-1;5;2000000000;2 2@ }
    ref { dummyAtom @dummyAtom=(0,0,0)|(nan,0,0);(1e300,1e300,1e300)@ }
    axis @axis=(0,0,1)|(0,0,0);(nan,0,1);(1e300,0,0)@
    componentCoeff @componentCoeff=1.0@
    componentExp @componentExp=1|0;-1;2;2000000000;-2000000000@
  }
}
""",
    "periodic": """colvar {
  name #NAME#
  width @width=0.5@
  distanceZ {
    main { atomNumbers 2 }
    ref { dummyAtom (0,0,0) }
    period @period=4.0@
    wrapAround @wrapAround=0.0@
  }
}
""",
    "extended": """colvar {
  name #NAME#
  width @width=0.5@
  lowerBoundary -4
  upperBoundary 4
  extendedLagrangian on
  extendedFluctuation @extendedFluctuation=0.5@
  extendedTimeConstant @extendedTimeConstant=20@
  extendedTemp @extendedTemp=300@
  extendedLangevinDamping @extendedLangevinDamping=1.0@
  outputVelocity on
  outputEnergy on
  distanceZ {
    main { atomNumbers 2 }
    ref { dummyAtom (0,0,0) }
  }
}
""",
    "groups": """colvar {
  name #NAME#
  distance {
    group1 { atomNumbersRange @atomNumbersRange=1-2|2-1;0-1;1-2000000000;-1-2;1-1@ }
    group2 { atomNumbers @atomNumbers=2 3|1 2;3;1 1;0@ }
    oneSiteTotalForce @oneSiteTotalForce=off|on@
  }
}
""",
    "fitted": """colvar {
  name #NAME#
  rmsd {
    atoms { atomNumbers @atomNumbers=1 2 3|1;1 2;1 2 3 4;3 2 1@ }
    refPositions @refPositions=(0,0,0) (1,0,0) (0,1,0)|(0,0,0);(0,0,0) (0,0,0) (0,0,0);(nan,0,0) (1,0,0) (0,1,0);(0,0,0) (1,0,0) (0,1,0) (0,0,1)@
  }
}
""",
    "files": """colvar {
  name #NAME#
  rmsd {
    atoms { atomNumbers 1 2 3 }
    refPositionsFile @refPositionsFile=ref.xyz|missing.xyz;empty.xyz;short.xyz;.@
  }
}
""",
    "harmonic": """harmonic {
  name #NAME#
  colvars x
  centers @centers=0.5@
  forceConstant @forceConstant=2.0@
  targetCenters @targetCenters=1.5@
  targetNumSteps @targetNumSteps=4|0;-1;1;2000000000;-2000000000@
  targetNumStages @targetNumStages=2|0;-1;1;2000000000;-2000000000@
  outputEnergy on
  outputCenters on
  outputFreq @outputFreq=1|0;-1;2000000000;-2000000000@
  timeStepFactor @timeStepFactor=1|0;-1;2;2000000000@
}
""",
    "harmonick": """harmonic {
  name #NAME#
  colvars x
  centers 0.5
  forceConstant @forceConstant=2.0@
  targetForceConstant @targetForceConstant=4.0@
  lambdaExponent @lambdaExponent=2.0@
  targetNumSteps @targetNumSteps=4|0;-1;1;2000000000;-2000000000@
  targetNumStages @targetNumStages=2|0;-1;1;2000000000;-2000000000@
}
""",
    "work": """harmonic {
  name #NAME#
  colvars x
  centers @centers=0.5@
  forceConstant @forceConstant=2.0@
  targetCenters @targetCenters=1.5@
  targetNumSteps @targetNumSteps=4|0;-1;1;2000000000;-2000000000@
  outputAccumulatedWork on
}
""",
    "schedule": """harmonic {
  name #NAME#
  colvars x
  centers 0.5
  forceConstant 2.0
  targetForceConstant @targetForceConstant=4.0@
  targetNumSteps @targetNumSteps=4|0;-1;1;2000000000;-2000000000@
  lambdaSchedule @lambdaSchedule=0.0 0.5 1.0|1.0;0.5 0.5;2.0 -1.0 nan;0.0 1.0 0.5@
}
""",
    "lists": """harmonic {
  name #NAME#
  colvars @colvars=x|x x;nosuch;x nosuch@
  centers @centers=0.5|0.5 1.5;@
  forceConstant 2.0
}
""",
    "walls": """harmonicWalls {
  name #NAME#
  colvars x
  lowerWalls @lowerWalls=-1.0@
  upperWalls @upperWalls=1.0@
  lowerWallConstant @lowerWallConstant=2.0@
  upperWallConstant @upperWallConstant=2.0@
}
""",
    "linear": """linear {
  name #NAME#
  colvars x
  centers @centers=0.5@
  forceConstant @forceConstant=2.0@
}
""",
    "metadynamics": """metadynamics {
  name #NAME#
  colvars x
  hillWeight @hillWeight=0.1@
  hillWidth @hillWidth=1.5@
  newHillFrequency @newHillFrequency=2|0;-1;1;2000000000;-2000000000@
  gridsUpdateFrequency @gridsUpdateFrequency=2|0;-1;1;2000000000;-2000000000@
  useGrids @useGrids=on|off@
  keepHills @keepHills=off|on@
  writeHillsTrajectory on
  wellTempered on
  biasTemperature @biasTemperature=1000@
  outputFreq @outputFreq=2|0;-1;1;2000000000;-2000000000@
}
""",
    "sigmas": """metadynamics {
  name #NAME#
  colvars x
  hillWeight 0.1
  gaussianSigmas @gaussianSigmas=0.5|0;-1;1e-9;1e300;nan;inf;0.5 0.5@
  newHillFrequency 1
  ebMeta @ebMeta=off|on@
}
""",
    "abf": """abf {
  name #NAME#
  colvars x
  fullSamples @fullSamples=2|0;-1;1;2000000000;-2000000000@
  minSamples @minSamples=1|0;-1;3;2000000000;-2000000000@
  historyFreq @historyFreq=2|0;-1;1;3;2000000000;-2000000000@
  outputFreq @outputFreq=2|0;-1;1;2000000000;-2000000000@
  maxForce @maxForce=10.0@
  hideJacobian @hideJacobian=off|on@
  integrate @integrate=on|off@
  integrateMaxIterations @integrateMaxIterations=10|0;-1;1;2000000000;-2000000000@
  integrateTol @integrateTol=1e-4@
}
""",
    "abfcv": """colvar {
  name #NAME#v
  width @width=0.5@
  lowerBoundary @lowerBoundary=-2@
  upperBoundary @upperBoundary=2@
  distanceZ {
    main { atomNumbers 2 }
    ref { atomNumbers 4 }
  }
}
abf {
  name #NAME#
  colvars #NAME#v
  fullSamples 2
}
""",
    "metacv": """colvar {
  name #NAME#v
  width @width=0.5@
  lowerBoundary @lowerBoundary=-2@
  upperBoundary @upperBoundary=2@
  expandBoundaries @expandBoundaries=off|on@
  distanceZ {
    main { atomNumbers 2 }
    ref { atomNumbers 4 }
  }
}
metadynamics {
  name #NAME#
  colvars #NAME#v
  hillWeight 0.1
  hillWidth 1.5
  newHillFrequency 1
}
""",
    "histogram": """histogram {
  name #NAME#
  colvars x
  outputFreq @outputFreq=2|0;-1;1;2000000000;-2000000000@
  histogramGrid {
    width @width=0.5@
    lowerBoundary @lowerBoundary=-2@
    upperBoundary @upperBoundary=2@
  }
}
""",
    "opes": """opes_metad {
  name #NAME#
  colvars x
  newHillFrequency @newHillFrequency=2|0;-1;1;2000000000;-2000000000@
  barrier @barrier=10@
  gaussianSigma @gaussianSigma=0.5@
  biasfactor @biasfactor=5@
  epsilon @epsilon=0.01@
  kernelCutoff @kernelCutoff=3.0@
  compressionThreshold @compressionThreshold=1.0@
  printTrajectoryFrequency @printTrajectoryFrequency=1|0;-1;2000000000;-2000000000@
}
""",
    "opesadaptive": """opes_metad {
  name #NAME#
  colvars x
  newHillFrequency 2
  barrier 10
  adaptiveSigma on
  adaptiveSigmaStride @adaptiveSigmaStride=2|0;-1;1;2000000000;-2000000000@
  gaussianSigmaMin @gaussianSigmaMin=0.01@
}
""",
    "alb": """alb {
  name #NAME#
  colvars x
  centers @centers=0.5@
  updateFrequency @updateFrequency=4|0;-1;1;2;3;2000000000;-2000000000@
  forceRange @forceRange=3.0@
  rateMax @rateMax=1.0@
}
""",
    "abmd": """abmd {
  name #NAME#
  colvars x
  forceConstant @forceConstant=2.0@
  stoppingValue @stoppingValue=1.5@
  decreasing @decreasing=off|on@
}
""",
}

BASE = """colvar {
  name x
  width 0.5
  lowerBoundary -2
  upperBoundary 2
  outputAppliedForce on
  distanceZ {
    main { atomNumbers 1 }
    ref { atomNumbers 4 }
  }
}
harmonic {
  name hx
  colvars x
  centers 0.25
  forceConstant 1.5
  outputEnergy on
}
"""
FOLLOW = """colvar {
  name y
  distanceZ {
    main { atomNumbers 3 }
    ref { dummyAtom (0,0,0) }
  }
}
harmonic {
  name hy
  colvars y
  centers -0.5
  forceConstant 0.75
}
"""
PLACE = re.compile(r"@(\w+)=([^@|]*)(?:\|([^@]*))?@")


# pairs of settings that once killed the process (found by the thorough tier's random pairs); executed in every tier
REGRESSIONS = [
    [[{"t": "abfcv", "k": "upperBoundary", "v": "0"}, {"t": "abfcv", "k": "width", "v": "1e-9"}]],
    [[{"t": "metacv", "k": "upperBoundary", "v": "1e-9"}, {"t": "metacv", "k": "width", "v": "1e-9"}]],
    [[{"t": "histogram", "k": "upperBoundary", "v": "2000000000"}, {"t": "histogram", "k": "width", "v": "1"}]],
    [[{"t": "abfcv", "k": "lowerBoundary", "v": "0"}, {"t": "abfcv", "k": "width", "v": "1e-9"}]],
    [[{"t": "colvar", "k": "corrFuncLength", "v": "2000000000"}], [{"t": "harmonic", "k": "forceConstant", "v": "nan"}]],
]


def table():
    rows = []
    for t, txt in TEMPLATES.items():
        for m in PLACE.finditer(txt):
            vals = m.group(3).split(";") if m.group(3) is not None else [v for v in NUM if v != m.group(2)]
            rows.append({"t": t, "k": m.group(1), "vals": vals})
    return rows


def render(t, settings, name):
    txt = TEMPLATES[t].replace("#NAME#", name)
    return PLACE.sub(lambda m: settings.get(m.group(1), m.group(2)), txt)


def positions(k):
    return [[0.5, 0.25, 0.125 + 0.25 * k], [0.75, -0.5, 0.625 - 0.125 * k], [1.0, 2.0, -0.375 + 0.5 * k], [0.25, 0.25, 0.25]]


def limit_as():
    resource.setrlimit(resource.RLIMIT_AS, (6 << 30, 6 << 30))


def script(case, skip=()):
    """Command list for one case; attempts whose index is in skip are left out (the module that never saw them)."""
    cmds = [{"op": "new", "natoms": 4, "T": 300.0, "prefix": "o", "trajFreq": 1, "restartFreq": 2},
            {"op": "config", "text": BASE}, {"op": "step", "pos": positions(0)}]
    marks = [("new", None), ("Base", None), ("Step", None)]
    for i, att in enumerate(case):
        t = att[0]["t"]
        text = render(t, {s["k"]: s["v"] for s in att}, "a%d" % i)
        if i not in skip:
            cmds.append({"op": "config", "text": text})
            marks.append(("Attempt", i))
        cmds.append({"op": "step", "pos": positions(1 + i)})
        marks.append(("Step", None))
    cmds.append({"op": "config", "text": FOLLOW})
    marks.append(("Follow", None))
    for k in range(3):
        cmds.append({"op": "step", "pos": positions(5 + k)})
        marks.append(("Step", None))
    cmds.append({"op": "save", "fmt": "text"})
    marks.append(("save", None))
    cmds.append({"op": "postrun"})
    marks.append(("postrun", None))
    cmds.append({"op": "destroy"})
    marks.append(("destroy", None))
    return cmds, marks


def names_of(r):
    return sorted(list(r.get("cvs", {}).keys()) + list(r.get("biases", {}).keys()))


def obs_of(r):
    o = {}
    for k, v in r.get("cvs", {}).items():
        o[k] = json.dumps(v, sort_keys=True)
    for k, v in r.get("biases", {}).items():
        o[k] = json.dumps(v, sort_keys=True)
    o["#atoms"] = json.dumps([r.get("fat"), r.get("E"), r.get("Etot")], sort_keys=True)
    return o


def execute(d, wd, cmds):
    """Run the commands one by one (so that the one that kills the process is known)."""
    out = []
    for c in cmds:
        r = d.send(c)
        out.append(r)
        if r.get("op") in ("died", "terminate", "exception") or d.dead:
            break
    return out


def prepare_files(wd):
    os.makedirs(wd, exist_ok=True)
    open(os.path.join(wd, "ref.xyz"), "w").write("3\nref\nC 0 0 0\nC 1 0 0\nC 0 1 0\n")
    open(os.path.join(wd, "empty.xyz"), "w").write("")
    open(os.path.join(wd, "short.xyz"), "w").write("3\nref\nC 0 0 0\n")


def run_case(case, wd, flavour):
    """-> (events, problem or None)."""
    events = [{"e": "Reset"}]
    prepare_files(wd)
    cmds, marks = script(case)
    d = vlib.Drv(flavour=flavour, cwd=wd, timeout=(120 if flavour != "plain" else 40), preexec=(limit_as if flavour == "plain" else None))
    try:
        ra = execute(d, wd, cmds)
    finally:
        d.close()
    if len(ra) < len(cmds) or ra[-1].get("op") in ("died", "terminate", "exception"):
        k = len(ra) - 1
        last = ra[-1]
        how = "timeout" if last.get("timeout") else ("uncaught C++ exception %s" % last.get("what", "") if last.get("op") in ("terminate", "exception") else "signal %s" % last.get("signal"))
        return events + [{"e": "Died"}], {"kind": "hang" if last.get("timeout") else ("exception" if last.get("op") in ("terminate", "exception") else "crash"), "at": marks[k][0], "how": how,
                                           "stderr": (last.get("stderr") or "")[-1500:], "cmd": cmds[k]}
    # which attempts were rejected
    rejected = [m[1] for m, r in zip(marks, ra) if m[0] == "Attempt" and r.get("rc") != 0]
    cmds_b, marks_b = script(case, skip=set(rejected))
    wdb = wd + "_b"
    prepare_files(wdb)
    d = vlib.Drv(flavour=flavour, cwd=wdb, timeout=(120 if flavour != "plain" else 40), preexec=(limit_as if flavour == "plain" else None))
    try:
        rb = execute(d, wdb, cmds_b)
    finally:
        d.close()
    shutil.rmtree(wdb, ignore_errors=True)
    if len(rb) < len(cmds_b):
        return events + [{"e": "Died"}], {"kind": "crash", "at": "reference", "how": "the module without the rejected definitions died", "cmd": cmds_b[len(rb) - 1]}
    # align the two runs: the reference executed the same commands except the rejected definitions
    ib = 0
    for m, r in zip(marks, ra):
        if m[0] == "Attempt" and m[1] in rejected:
            newn = [n for n in r.get("names", []) if n not in events_last_objs(events)]
            events.append({"e": "Attempt", "acc": False, "objs": r.get("names", []), "owned": all(n.startswith("a%d" % m[1]) for n in newn), "errtext": r.get("errtext", "")[:200]})
            continue
        b = rb[ib]
        ib += 1
        if m[0] == "Base":
            events.append({"e": "Base", "objs": r.get("names", [])})
        elif m[0] == "Attempt":
            newn = [n for n in r.get("names", []) if n not in events_last_objs(events)]
            events.append({"e": "Attempt", "acc": True, "objs": r.get("names", []), "owned": all(n.startswith("a%d" % m[1]) for n in newn)})
        elif m[0] == "Follow":
            events.append({"e": "Follow", "acc": r.get("rc") == 0, "objs": r.get("names", []), "errtext": r.get("errtext", "")[:200]})
        elif m[0] == "Step":
            oa, ob = obs_of(r), obs_of(b)
            same_objs = names_of(r) == names_of(b)
            differ = sorted(k for k in ob if oa.get(k) != ob.get(k) and (same_objs or not k.startswith("#")))
            events.append({"e": "Step", "objs": names_of(r), "differ": differ})
        elif m[0] == "save":
            if r.get("state") != b.get("state") and events_last_objs(events) == names_of(rb[ib - 2]):
                events.append({"e": "Step", "objs": events_last_objs(events), "differ": ["#state"]})
    return events, None


def events_last_objs(events):
    for e in reversed(events):
        if "objs" in e:
            return e["objs"]
    return []


def chunk_fn(args):
    cases, seed, wd, flavour = args
    out = []
    for i, c in enumerate(cases):
        w = os.path.join(wd, "c%d_%d" % (seed, i))
        try:
            ev, prob = run_case(c, w, flavour)
        finally:
            shutil.rmtree(w, ignore_errors=True)
        out.append((c, ev, prob))
    return out


def case_key(case):
    return "+".join(sorted("%s.%s=%s" % (s["t"], s["k"], s["v"].replace(" ", "_")) for att in case for s in att))


def run(ctx):
    ctx.rule = ("cases = one or two definitions, each with one or two keywords of its template set to a boundary value (0, -1, 1, +-2e9, 1e-9, 1e300, nan, inf, or structural values: "
                "empty/overlapping/reversed groups, missing/empty/short files, mismatched lists), executed between a base configuration and a valid follow-up definition with steps, "
                "state and output requests; every (type, keyword, value) alone is enumerated; non-trivial = a case in which the real module rejected at least one definition")
    ctx.assumptions = [
        "the harness process has a 6 GB address-space limit (plain build) and a 40 s watchdog per command; an uncaught std::bad_alloc or a time-out is reported as the process dying",
        "objects 'behave exactly as before' is observed as bit-identical values, forces, energies (per object and per atom) at every step and identical saved state, compared with a second real module that was never given the rejected definitions",
    ]
    vlib.build()
    quick = ctx.quick()
    flavour = "plain"
    rows = table()
    tpath = os.path.join(ctx.workdir, "ptable.ndjson")
    vlib.write_ndjson(tpath, rows)
    env = {"PTABLE": tpath}
    ctx.extra_env = env
    g = vlib.tlc("MCParams", "MCParams.cfg", workers=4, timeout=900, env=env)
    ctx.add_tlc(g, "MCParams (all single settings)")
    cases = [b["case"] for b in g.beh]
    s = vlib.tlc("MCParams", "MCParams_sim.cfg", workers=4, simulate=(150 if quick else 3000), depth=5, seed=ctx.seed, timeout=900, env=env)
    ctx.add_tlc(s, "MCParams (random pairs and sequences)", exhaustive=False)
    ctx.exhaustive = True
    seen = set(case_key(c) for c in cases)
    extra = []
    for b in s.beh:
        k = case_key(b["case"])
        if k not in seen and (len(b["case"]) > 1 or len(b["case"][0]) > 1):
            seen.add(k)
            extra.append(b["case"])
    rng = random.Random(ctx.seed)
    rng.shuffle(extra)
    extra = extra[:(400 if quick else 6000)]
    allc = cases + extra + [c for c in REGRESSIONS if case_key(c) not in seen]
    # every template must be accepted as it stands, or the table crosses nothing
    d = vlib.Drv(cwd=ctx.workdir)
    try:
        prepare_files(ctx.workdir)
        for t in TEMPLATES:
            d.cmd(op="new", natoms=4, T=300.0, prefix="o", trajFreq=1, restartFreq=2)
            d.cmd(op="config", text=BASE)
            r = d.cmd(op="config", text=render(t, {}, "a0"))
            if r.get("rc") != 0:
                raise vlib.MachineryError("C10 template %s is not accepted as it stands: %s" % (t, r.get("errtext")))
    finally:
        d.close()
    wd = os.path.join(ctx.workdir, "cases")
    os.makedirs(wd, exist_ok=True)
    n = 16
    chunks = [(allc[i::n], i, wd, flavour) for i in range(n) if allc[i::n]]
    results = vlib.parallel_map(chunk_fn, chunks, n)
    events, nrej = [], 0
    problems = []
    for chunk in results:
        for c, ev, prob in chunk:
            ctx.evaluations += 1
            key = case_key(c)
            if prob:
                problems.append((c, prob))
                continue
            if any(e["e"] == "Attempt" and not e["acc"] for e in ev):
                nrej += 1
                ctx.nontriv(key)
            events.append((c, ev))
    report_problems(ctx, problems)
    vlib.log("executed %d cases (%d with a rejected definition)" % (len(allc), nrej))
    ctx.extra["cases_with_rejection"] = nrej
    for c, ev in events[:2]:
        ctx.sample({"case": case_key(c), "events": [{k: v for k, v in e.items() if k != "errtext"} for e in ev][:8]})
    validate(ctx, events)
    if not quick:
        asan(ctx, cases, rng)


def report_problems(ctx, problems, prefix=""):
    """A death is attributed to the single setting that already dies alone in the same way, if the case contains one."""
    alone = {}
    for c, prob in problems:
        if len(c) == 1 and len(c[0]) == 1:
            alone[case_key(c)] = prob["kind"]
    for c, prob in problems:
        key = case_key(c)
        parts = [p for p in key.split("+") if alone.get(p) == prob["kind"]]
        if parts and key not in alone:
            key = parts[0]
        ctx.violation("%s:%s" % (prob["kind"], key), "%sthe process died (%s) at %s of the case %s %s" % (prefix, prob["how"], prob["at"], case_key(c), (prob.get("stderr") or "")[-300:]),
                      {"case": c, "problem": prob})


def validate(ctx, events):
    """All executions concatenated; on rejection, find the offending executions one by one."""
    flat = [e for _, ev in events for e in ev]
    r = vlib.validate_trace(ctx, "ParamsTrace", "ParamsTrace.cfg", flat, "recorded executions", nexec=len(events), key=None, env=ctx.extra_env)
    if r is not None and getattr(r, "accepted", False):
        return
    # bisect by execution
    def ok(sub):
        r = vlib.validate_trace(ctx, "ParamsTrace", "ParamsTrace.cfg", [e for _, ev in sub for e in ev], "bisect", nexec=len(sub), key=None, quiet=True, env=ctx.extra_env)
        return r is not None and getattr(r, "accepted", False)
    bad = []
    todo = [events]
    while todo and len(bad) < 12:
        sub = todo.pop()
        if ok(sub):
            continue
        if len(sub) == 1:
            bad.append(sub[0])
            continue
        todo.append(sub[:len(sub) // 2])
        todo.append(sub[len(sub) // 2:])
    for c, ev in bad:
        why = "?"
        for e in ev:
            if e["e"] == "Attempt" and e["acc"] and not e["owned"]:
                why = "an accepted definition created objects it does not own: %s" % e["objs"]
            if e["e"] == "Attempt" and not e["acc"]:
                why = why if why != "?" else "after the rejected definition"
            if e["e"] == "Follow" and not e["acc"]:
                why = "a valid definition submitted after the rejected one was refused: %s" % e.get("errtext")
            if e["e"] == "Step" and e["differ"]:
                why = "objects %s differ from a module that never saw the rejected definition" % e["differ"]
                break
        ctx.violation("rollback:%s" % case_key(c), "recorded execution is not a behaviour of Params.tla: %s (case %s)" % (why, case_key(c)), {"case": c, "events": ev})


def asan(ctx, cases, rng):
    try:
        vlib.build("asan")
    except Exception as e:
        raise vlib.MachineryError("asan build failed: %s" % e)
    sub = list(cases)
    rng.shuffle(sub)
    sub = sub[:600]
    wd = os.path.join(ctx.workdir, "asan")
    os.makedirs(wd, exist_ok=True)
    chunks = [(sub[i::16], i, wd, "asan") for i in range(16) if sub[i::16]]
    problems = []
    for chunk in vlib.parallel_map(chunk_fn, chunks, 16):
        for c, ev, prob in chunk:
            ctx.evaluations += 1
            if prob:
                problems.append((c, prob))
    report_problems(ctx, problems, "sanitizer build: ")


def replay(ctx, path):
    j = json.load(open(path))
    c = j["payload"].get("case")
    if c:
        vlib.build()
        tpath = os.path.join(ctx.workdir, "ptable.ndjson")
        vlib.write_ndjson(tpath, table())
        ctx.extra_env = {"PTABLE": tpath}
        w = os.path.join(ctx.workdir, "replay")
        ev, prob = run_case(c, w, "plain")
        if prob:
            ctx.violation("%s:%s" % (prob["kind"], case_key(c)), str(prob), {"case": c})
        else:
            validate(ctx, [(c, ev)])
