"""C04: ABF stores the mean force per bin and applies its smoothed negative.
spec/Abf.tla (mechanism vs history), MCAbf (model checking + behaviour generation),
AbfTrace (validation of recorded executions)."""
import json, os, re, random
import vlib
from vlib import close

NB_DEFAULT = 3


def config_text(p, nb):
    cv = ["colvar {", "  name z", "  width 1.0", "  lowerBoundary 0.0", "  upperBoundary %d.0" % nb]
    if p["subtract"]:
        cv.append("  subtractAppliedForce on")
    cv += ["  distanceZ {", "    main { atomNumbers 1 }", "    ref { dummyAtom (0,0,0) }", "    axis (0,0,1)",
           "    oneSiteTotalForce on"]
    if p["periodic"]:
        cv += ["    period %d.0" % nb, "    wrapAround %s" % (nb / 2.0)]
    cv += ["  }", "}"]
    abf = ["abf {", "  colvars z", "  fullSamples %d" % p["fullS"], "  minSamples %d" % p["minS"], "  integrate off"]
    if not p["applyBias"]:
        abf.append("  applyBias off")
    if p["maxF"]:
        abf.append("  maxForce %d.0" % p["maxF"])
    if p["stepZero"]:
        abf.append("  stepZeroData on")
    abf.append("}")
    oth = []
    if p["otherF"]:
        # linear restraint: E = k (x - c) / w, force = -k/w
        oth = ["linear {", "  name other", "  colvars z", "  centers 0.0", "  forceConstant %d.0" % (-p["otherF"]), "}"]
    return "\n".join(cv + abf + oth) + "\n"


def parse_abf_state(state):
    m = re.search(r"abf \{.*?samples\s*\n(.*?)\n\s*\ngradient\s*\n(.*?)\n\s*(?:\}|\n)", state, re.S)
    if not m:
        return None, None
    s = [int(float(t)) for t in m.group(1).split()]
    g = [float(t) for t in m.group(2).split()]
    return s, g


def pos_of(xbin, off):
    return [[0.0, 0.0, xbin + off], [0.0, 0.0, 0.0]]


class Runner:
    """Executes spec actions against the real code and returns the projected state after each."""

    def __init__(self, drv, p, nb):
        self.d, self.p, self.nb = drv, p, nb
        self.cfg = config_text(p, nb)
        self.start()

    def start(self, state=None):
        r = self.d.cmd(op="new", natoms=2, sameStep=self.p["sameStep"], masses=[1.0, 1.0])
        r = self.d.cmd(op="config", text=self.cfg)
        if r.get("op") == "died" or r.get("rc") != 0:
            raise vlib.MachineryError("C04 config rejected: %s" % r)
        if state is not None:
            r = self.d.cmd(op="load", state=state)
            if r.get("rc") != 0:
                raise vlib.MachineryError("C04 state load failed: %s" % r)

    def act(self, a, x, f, off):
        if a == "Restart":
            st = self.d.cmd(op="save")["state"]
            self.d.cmd(op="destroy")
            self.start(st)
        r = self.d.cmd(op="step", pos=pos_of(x, off), sys=[[0, 0, float(f)], [0, 0, 0]], newrun=(a == "NewRun"))
        if r.get("op") == "died":
            return r
        st = self.d.cmd(op="save")
        if st.get("op") == "died":
            return st
        s, g = parse_abf_state(st["state"])
        cv = r["cvs"]["z"]
        fat = r["fat"].get("0", [0, 0, 0])
        return {"it": r["it"], "s": s, "gmean": g, "F": None, "fa": cv["fa"][0], "ft": cv.get("ft", [0.0])[0],
                "fat": fat[2], "rc": r["rc"], "err": r["err"], "E": r["E"]}


def compare(exp, got, p, D):
    """exp: spec record (scaled ints); got: projection of the real state.  Returns list of mismatching fields."""
    bad = []
    if got.get("op") == "died":
        return ["died:%s" % got.get("signal")]
    nb = len(got["s"]) if got["s"] else 0
    if got["it"] != exp["it"]:
        bad.append("it")
    for b in range(nb):
        es, eg = exp["s"][str(b)], exp["g"][str(b)]
        if got["s"][b] != es:
            bad.append("samples[%d] expected %d got %d" % (b, es, got["s"][b]))
        emean = (eg / D / es) if es > 0 else 0.0
        if not close(got["gmean"][b], emean):
            bad.append("gradient[%d] expected %r got %r" % (b, emean, got["gmean"][b]))
    # applied force on the variable = ABF force + other bias
    ef = exp["F"] / D + p["otherF"]
    if not close(got["fa"], ef):
        bad.append("applied force expected %r got %r" % (ef, got["fa"]))
    if not close(got["fat"], ef):
        bad.append("atom force expected %r got %r" % (ef, got["fat"]))
    if not close(got["ft"], exp["ft"] / D):
        bad.append("total force expected %r got %r" % (exp["ft"] / D, got["ft"]))
    return bad


def replay_chunk(args):
    behs, seed = args
    rng = random.Random(seed)
    d = vlib.Drv()
    out = []
    try:
        for beh in behs:
            p, nb, D = beh["p"], beh["nb"], beh["d"]
            try:
                run = Runner(d, p, nb)
            except vlib.MachineryError as e:
                out.append(("machinery", str(e), beh))
                continue
            res = ("ok", None, None)
            for k, a in enumerate(beh["acts"]):
                off = rng.choice([0.0, 0.5, 0.25])
                got = run.act(a["a"], a["x"], a["f"], off)
                bad = compare(a, got, p, D)
                if bad:
                    res = ("mismatch", {"act": k, "fields": bad, "quirk": a.get("q", False), "got": got}, beh)
                    break
            out.append(res)
            if d.dead:
                d = vlib.Drv()
            else:
                d.cmd(op="destroy")
    finally:
        d.close()
    return [(s, i, (b if s != "ok" else None)) for s, i, b in out]


def nontrivial_key(beh):
    """A behaviour is non-trivial if some bin received >= 1 sample and a non-zero ABF force was applied."""
    last = beh["acts"][-1]
    if any(v > 0 for v in last["s"].values()) and any(a["F"] != 0 for a in beh["acts"]):
        return json.dumps([beh["p"], [(a["a"], a["x"], a["f"]) for a in beh["acts"]]], sort_keys=True)
    return None


def replay_all(ctx, behs, what):
    n = 16
    chunks = [(behs[i::n], ctx.seed * 1000 + i) for i in range(n) if behs[i::n]]
    results = vlib.parallel_map(replay_chunk, chunks, n)
    nbad = 0
    for chunk in results:
        for status, info, beh in chunk:
            ctx.evaluations += 1
            ctx.traces += 1
            if status == "ok":
                continue
            if status == "machinery":
                raise vlib.MachineryError(info)
            nbad += 1
            if info.get("quirk"):
                ctx.violation("zero-total-subtract", "subtractAppliedForce: a delivered total force that is exactly zero is not corrected "
                              "for the previously applied force (colvar.cpp tests ft.norm2() > 0); " + "; ".join(info["fields"][:2]),
                              {"behaviour": beh, "info": info})
            else:
                ctx.violation("replay-mismatch:" + info["fields"][0].split(" ")[0], "%s: action %d: %s" % (what, info["act"], "; ".join(info["fields"][:3])),
                              {"behaviour": beh, "info": info})
    for b in behs:
        k = nontrivial_key(b)
        if k:
            ctx.nontriv(k)
    vlib.log("%s: replayed %d behaviours, %d mismatching" % (what, len(behs), nbad))


# ------------------------------------------------------------------ two-dimensional ABF (spec/Abf2D.tla)

def config_text2(p, nb):
    out = []
    for i, (nm, atom) in enumerate((("zA", 1), ("zB", 2))):
        cv = ["colvar {", "  name %s" % nm, "  width 1.0", "  lowerBoundary 0.0", "  upperBoundary %d.0" % nb[i]]
        if p["sub"][i]:
            cv.append("  subtractAppliedForce on")
        cv += ["  distanceZ {", "    main { atomNumbers %d }" % atom, "    ref { dummyAtom (0,0,0) }", "    axis (0,0,1)",
               "    oneSiteTotalForce on"]
        if p["per"][i]:
            cv += ["    period %d.0" % nb[i], "    wrapAround %s" % (nb[i] / 2.0)]
        cv += ["  }", "}"]
        out += cv
    abf = ["abf {", "  colvars zA zB", "  fullSamples %d" % p["fullS"], "  minSamples %d" % p["minS"], "  integrate off"]
    if not p["applyBias"]:
        abf.append("  applyBias off")
    if p["maxF"] != [0, 0]:
        abf.append("  maxForce %d.0 %d.0" % tuple(p["maxF"]))
    abf.append("}")
    out += abf
    for i, nm in enumerate(("zA", "zB")):
        if p["otherF"][i]:
            out += ["linear {", "  name other%d" % i, "  colvars %s" % nm, "  centers 0.0", "  forceConstant %d.0" % (-p["otherF"][i]), "}"]
    return "\n".join(out) + "\n"


class Runner2(Runner):
    """Two variables: zA = z of atom 1, zB = z of atom 2."""

    def __init__(self, drv, p, nb):
        self.d, self.p, self.nb = drv, p, nb
        self.cfg = config_text2(p, nb)
        self.start()

    def act(self, a, x, f, off):
        if a == "Restart":
            st = self.d.cmd(op="save")["state"]
            self.d.cmd(op="destroy")
            self.start(st)
        r = self.d.cmd(op="step", pos=[[0.0, 0.0, x[0] + off[0]], [0.0, 0.0, x[1] + off[1]]],
                       sys=[[0, 0, float(f[0])], [0, 0, float(f[1])]], newrun=(a == "NewRun"))
        if r.get("op") == "died":
            return r
        st = self.d.cmd(op="save")
        if st.get("op") == "died":
            return st
        s, g = parse_abf_state(st["state"])
        ca, cb = r["cvs"]["zA"], r["cvs"]["zB"]
        return {"it": r["it"], "s": s, "gmean": g, "fa": [ca["fa"][0], cb["fa"][0]],
                "ft": [ca.get("ft", [0.0])[0], cb.get("ft", [0.0])[0]],
                "fat": [r["fat"].get("0", [0, 0, 0]), r["fat"].get("1", [0, 0, 0])], "rc": r["rc"], "err": r["err"], "E": r["E"]}


def compare2(exp, got, p, D):
    bad = []
    if got.get("op") == "died":
        return ["died:%s" % got.get("signal")]
    if got["it"] != exp["it"]:
        bad.append("it")
    n = len(exp["s"])
    if got["s"] is None or len(got["s"]) != n or len(got["gmean"]) != 2 * n:
        return ["grid-shape: the saved state holds %r counts and %r gradient values, the specification %d bins x 2" %
                (got["s"] and len(got["s"]), got["gmean"] and len(got["gmean"]), n)]
    for b in range(n):
        es = exp["s"][b]
        if got["s"][b] != es:
            bad.append("samples[%d] expected %d got %d" % (b, es, got["s"][b]))
        for i in (0, 1):
            emean = (exp["g"][b][i] / D / es) if es > 0 else 0.0
            if not close(got["gmean"][2 * b + i], emean):
                bad.append("gradient[%d][%d] expected %r got %r" % (b, i, emean, got["gmean"][2 * b + i]))
    for i in (0, 1):
        ef = exp["F"][i] / D + p["otherF"][i]
        if not close(got["fa"][i], ef):
            bad.append("applied force on variable %d expected %r got %r" % (i, ef, got["fa"][i]))
        if not close(got["fat"][i][2], ef) or abs(got["fat"][i][0]) + abs(got["fat"][i][1]) > 1e-12:
            bad.append("atom force on atom %d expected (0,0,%r) got %r" % (i, ef, got["fat"][i]))
        if not close(got["ft"][i], exp["ft"][i] / D):
            bad.append("total force of variable %d expected %r got %r" % (i, exp["ft"][i] / D, got["ft"][i]))
    return bad


def replay_chunk2(args):
    behs, seed = args
    rng = random.Random(seed)
    d = vlib.Drv()
    out = []
    try:
        for beh in behs:
            p, nb, D = beh["p"], beh["nb"], beh["d"]
            try:
                run = Runner2(d, p, nb)
            except vlib.MachineryError as e:
                out.append(("machinery", str(e), beh))
                continue
            res = ("ok", None, None)
            for k, a in enumerate(beh["acts"]):
                if a["a"] in ("First", "Step"):      # a repeated step has the engine's unchanged coordinates
                    off = [rng.choice([0.0, 0.5, 0.25]), rng.choice([0.0, 0.5, 0.75])]
                got = run.act(a["a"], a["x"], a["f"], off)
                bad = compare2(a, got, p, D)
                if bad:
                    res = ("mismatch", {"act": k, "fields": bad, "quirk": a.get("q", False) and not p.get("dev", False), "got": got}, beh)
                    break
            out.append(res)
            if d.dead:
                d = vlib.Drv()
            else:
                d.cmd(op="destroy")
    finally:
        d.close()
    return [(s, i, (b if s != "ok" else None)) for s, i, b in out]


def nontrivial_key2(beh):
    last = beh["acts"][-1]
    if any(v > 0 for v in last["s"]) and any(a["F"] != [0, 0] for a in beh["acts"]):
        return json.dumps(["2d", beh["p"], [(a["a"], a["x"], a["f"]) for a in beh["acts"]]], sort_keys=True)
    return None


def replay_all2(ctx, behs, what):
    n = 16
    chunks = [(behs[i::n], ctx.seed * 1000 + 500 + i) for i in range(n) if behs[i::n]]
    results = vlib.parallel_map(replay_chunk2, chunks, n)
    nbad = 0
    for chunk in results:
        for status, info, beh in chunk:
            ctx.evaluations += 1
            ctx.traces += 1
            if status == "ok":
                continue
            if status == "machinery":
                raise vlib.MachineryError(info)
            nbad += 1
            if info.get("quirk"):
                ctx.violation("zero-total-subtract", "subtractAppliedForce (two variables): a delivered total force that is exactly zero is not corrected "
                              "for the previously applied force (colvar.cpp tests ft.norm2() > 0); " + "; ".join(info["fields"][:2]),
                              {"behaviour2d": beh, "info": info})
            else:
                ctx.violation("replay2d-mismatch:" + info["fields"][0].split(" ")[0], "%s: action %d: %s" % (what, info["act"], "; ".join(info["fields"][:3])),
                              {"behaviour2d": beh, "info": info})
    for b in behs:
        k = nontrivial_key2(b)
        if k:
            ctx.nontriv(k)
    vlib.log("%s: replayed %d behaviours, %d mismatching" % (what, len(behs), nbad))


def record_traces2(ctx, nruns, nsteps):
    """Seeded random driver for the two-variable ABF: one event per engine call with the projected state (3 x 2 bins)."""
    rng = random.Random(ctx.seed + 177)
    D = 1441440
    nb = [3, 2]
    events = []
    d = vlib.Drv()
    try:
        for run_i in range(nruns):
            p = {"sameStep": rng.random() < 0.5, "minS": 0, "fullS": 1, "per": [False, rng.random() < 0.3],
                 "maxF": rng.choice([[0, 0], [0, 0], [2, 1]]), "applyBias": rng.random() < 0.85,
                 "sub": rng.choice([[False, False], [True, False], [True, True], [False, True]]),
                 "otherF": rng.choice([[0, 0], [0, 0], [-2, 0], [0, 3]]), "dev": True}
            p["minS"], p["fullS"] = rng.choice([(0, 1), (1, 3), (0, 2), (2, 4)])
            if p["per"][1]:
                p["otherF"][1] = 0       # linear restraints are not accepted on periodic variables
            run = Runner2(d, p, nb)
            events.append({"e": "Reset", "p": p})
            first, runs = True, 1
            for k in range(nsteps):
                u = rng.random()
                a = "First" if first else ("NewRun" if (u < 0.08 and runs < 3) else ("Restart" if (u < 0.16 and runs < 3) else "Step"))
                if a in ("NewRun", "Restart"):
                    runs += 1
                    x, f = lastx, lastf
                else:
                    x = [rng.randint(-1, nb[0]), rng.randint(-1, nb[1] + 1)]
                    f = [rng.choice([-2, -1, 0, 1, 2, 3]), rng.choice([-3, 0, 1, 2])]
                    off = [rng.choice([0.0, 0.5, 0.125]), rng.choice([0.0, 0.5, 0.75])]
                lastx, lastf, first = x, f, False
                got = run.act(a, x, f, off)
                if got.get("op") == "died":
                    ctx.violation("crash", "implementation died during a recorded two-variable run", {"p": p, "events": events[-5:]})
                    d = vlib.Drv()
                    break
                n = nb[0] * nb[1]
                if got["s"] is None or len(got["s"]) != n or len(got["gmean"]) != 2 * n:
                    ctx.violation("replay2d-mismatch:grid-shape", "saved state of the two-variable ABF does not hold %d counts and %d gradient values" % (n, 2 * n), {"p": p})
                    break
                events.append({"e": a, "x": x, "f": f, "it": got["it"], "s": got["s"],
                               "g": [[vlib.lat(got["gmean"][2 * b + i] * got["s"][b], D) for i in (0, 1)] for b in range(n)],
                               "F": [vlib.lat(got["fa"][i] - p["otherF"][i], D) for i in (0, 1)],
                               "ft": [vlib.lat(got["ft"][i], D) for i in (0, 1)]})
            d.cmd(op="destroy")
    finally:
        d.close()
    return events


def run2d(ctx):
    quick = ctx.quick()
    r = vlib.tlc("MCAbf2D", "MCAbf2D_mc_quick.cfg", workers=16, timeout=3000)
    ctx.add_tlc(r, "MCAbf2D properties")
    if not quick and not r.violation:
        r = vlib.tlc("MCAbf2D", "MCAbf2D_mc_thorough.cfg", workers=16, timeout=3000, xmx="24g")
        ctx.add_tlc(r, "MCAbf2D properties (one action deeper, delayed-force convention)")
    if r.violation:
        ctx.violation("model2d:" + r.violation, "design-level invariant %s violated in spec/Abf2D.tla" % r.violation, {"tlc": vlib.counterexample(r)})
        return
    g = vlib.tlc("MCAbf2D", "MCAbf2D_gen.cfg", workers=16, timeout=900)
    ctx.add_tlc(g, "MCAbf2D generation (BFS)")
    behs = g.beh
    rng = random.Random(ctx.seed + 5)
    rng.shuffle(behs)
    behs = behs[:(5000 if quick else 60000)]
    s = vlib.tlc("MCAbf2D", "MCAbf2D_sim.cfg", workers=8, simulate=(200 if quick else 4000), depth=9, seed=ctx.seed, timeout=900)
    ctx.add_tlc(s, "MCAbf2D generation (simulation)", exhaustive=False)
    for b in behs[:1]:
        ctx.sample(b)
    replay_all2(ctx, behs, "2d-bfs-depth3")
    sb = list(s.beh)
    random.Random(ctx.seed + 12).shuffle(sb)
    replay_all2(ctx, sb[:(1500 if quick else 30000)], "2d-simulation")
    ev = record_traces2(ctx, 30 if quick else 500, 12 if quick else 14)
    r = vlib.validate_trace(ctx, "Abf2DTrace", "Abf2DTrace.cfg", ev, "2d-random-driver")
    if r is not None and '"QUIRK"' in r.out:
        ctx.violation("zero-total-subtract", "recorded two-variable execution: the ZeroTotal deviation fired", {"note": "see Abf2DTrace QUIRK output"})


# ------------------------------------------------------------------ trace validation (code -> spec)

def record_traces(ctx, nruns, nsteps, nb):
    """Seeded random driver: runs the real code, logs one event per engine call with the projected state."""
    rng = random.Random(ctx.seed + 77)
    D = 1441440     # = the constant D of spec/AbfTrace.cfg (lcm(1..14) * 4)
    events = []
    d = vlib.Drv()
    try:
        for run_i in range(nruns):
            p = {"sameStep": rng.random() < 0.5, "stepZero": False, "minS": 0, "fullS": 1, "periodic": rng.random() < 0.3,
                 "maxF": rng.choice([0, 0, 1]), "applyBias": rng.random() < 0.85, "subtract": rng.random() < 0.4,
                 "otherF": rng.choice([0, 0, -2, 1])}
            r = rng.choice([(0, 1), (1, 3), (0, 2), (2, 4)])
            p["minS"], p["fullS"] = r
            if p["sameStep"]:
                p["stepZero"] = rng.random() < 0.3
            if p["periodic"]:
                p["otherF"] = 0      # linear restraints are not accepted on periodic variables
            run = Runner(d, p, nb)
            events.append({"e": "Reset", "p": p})
            first = True
            runs = 1
            for k in range(nsteps):
                u = rng.random()
                if first:
                    a = "First"
                elif u < 0.08 and runs < 3:
                    a = "NewRun"
                elif u < 0.16 and runs < 3:
                    a = "Restart"
                else:
                    a = "Step"
                if a in ("NewRun", "Restart"):
                    runs += 1
                    x, f = lastx, lastf
                else:
                    x, f = rng.randint(-1, nb), rng.choice([-2, -1, 0, 1, 2, 3])
                lastx, lastf = x, f
                first = False
                got = run.act(a, x, f, rng.choice([0.0, 0.5, 0.125]))
                if got.get("op") == "died":
                    ctx.violation("crash", "implementation died during recorded run", {"p": p, "events": events[-5:]})
                    d = vlib.Drv()
                    break
                ev = {"e": a, "x": x, "f": f, "it": got["it"], "s": got["s"],
                      "g": [vlib.lat(got["gmean"][b] * got["s"][b], D) for b in range(nb)],
                      "F": vlib.lat(got["fa"] - p["otherF"], D), "ft": vlib.lat(got["ft"], D)}
                events.append(ev)
            d.cmd(op="destroy")
    finally:
        d.close()
    return events


def validate_traces(ctx, events, nb, what):
    r = vlib.validate_trace(ctx, "AbfTrace", "AbfTrace.cfg", events, what)
    if r is not None and '"DEV"' in r.out:
        ctx.violation("zero-total-subtract", "recorded execution needs the ZeroTotal deviation", {"note": "see AbfTrace DEV output"})


def run(ctx):
    ctx.rule = ("behaviours = sequences of First/Step/NewRun/Restart with bin and system force chosen by TLC, for every parameter "
                "record in ParamSet; non-trivial = some bin holds a sample and a non-zero ABF force was applied; distinct by (params, inputs)")
    ctx.assumptions = [
        "engine model (harness): under the late convention the total force delivered at step t+1 is system(t) + what Colvars applied at t; none is delivered at the repeated step of a new run",
        "variable = distanceZ of one atom with oneSiteTotalForce (value = z, total force = Fz), so bias-level behaviour is observed without geometry",
        "gradient/sample arrays are observed through the saved state text (public format)",
    ]
    vlib.build()
    quick = ctx.quick()
    # 1. model checking of the design spec: mechanism satisfies the history-based property
    r = vlib.tlc("MCAbf", "MCAbf_mc_quick.cfg" if quick else "MCAbf_mc_thorough.cfg", workers=16, timeout=3000)
    ctx.add_tlc(r, "MCAbf properties")
    if r.violation:
        ctx.violation("model:" + r.violation, "design-level invariant %s violated in spec/Abf.tla" % r.violation, {"tlc": vlib.counterexample(r)})
        return
    # 2. behaviours: exhaustive to depth 3, random deeper ones
    g = vlib.tlc("MCAbf", "MCAbf_gen.cfg", workers=16, timeout=900)
    ctx.add_tlc(g, "MCAbf generation (BFS)")
    behs = g.beh
    if quick:
        rng = random.Random(ctx.seed)
        rng.shuffle(behs)
        behs = behs[:6000]
    s = vlib.tlc("MCAbf", "MCAbf_sim.cfg", workers=8, simulate=(250 if quick else 4000), depth=9, seed=ctx.seed, timeout=900)
    ctx.add_tlc(s, "MCAbf generation (simulation)", exhaustive=False)
    ctx.exhaustive = True  # the BFS parts are exhaustive within their bounds; simulation is additional
    for b in behs[:2]:
        ctx.sample(b)
    replay_all(ctx, behs, "bfs-depth3")
    sb = list(s.beh)
    random.Random(ctx.seed + 11).shuffle(sb)      # TLC prints simulated behaviours grouped by worker and parameter record
    sb = sb[:(1500 if quick else 40000)]
    for b in sb[:1]:
        ctx.sample(b)
    replay_all(ctx, sb, "simulation")
    # 3. recorded executions validated against the trace spec
    ev = record_traces(ctx, 40 if quick else 600, 12 if quick else 14, 4)
    ctx.sample({"trace_excerpt": ev[:4]})
    validate_traces(ctx, ev, 4, "random-driver")
    # 4. two variables (spec/Abf2D.tla)
    run2d(ctx)


def replay(ctx, path):
    j = json.load(open(path))
    beh = j["payload"].get("behaviour")
    if beh:
        replay_all(ctx, [beh], "replay")
    beh2 = j["payload"].get("behaviour2d")
    if beh2:
        replay_all2(ctx, [beh2], "replay")
