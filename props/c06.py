"""C06: restraints implement their documented potentials and time schedules.
spec/Restraint.tla (code-shaped mechanism with named deviations vs schedule-as-function-of-step property), MCRestraint,
RestraintTrace; Walls.tla for the closed forms of walls / linear / periodic harmonic."""
import json, os, re, random, math
import vlib
from vlib import close

KNOWN = {
    "cstage-repeated-step-advances": "staged moving centres: when a new run (same process) repeats a step with (step - firstStep) % targetNumSteps == 1 the stage change is executed again: the centre jumps one stage early",
    "kstage-repeated-step-advances": "staged force constant: the stage is advanced again when the step at a stage boundary is repeated (new run or restart exactly at (step - firstStep) % targetNumSteps == 0): a whole stage is skipped",
    "kstage-ti-repeated-step-counted-twice": "staged TI: the dU/dlambda sample of a repeated step (new run or restart) is accumulated twice",
    "kstage-ti-accumulator-not-saved": "staged TI: the accumulator restraint_FE is not part of the saved state: after a restart inside a stage the reported dA/dLambda misses the samples collected before the stop",
    "kstage-ti-step0-counted": "staged TI without equilibration: the first stage accumulates steps first..first+N (N+1 samples) and divides by N",
    "kmove-work-after-schedule-end": "changing force constant with outputAccumulatedWork: after targetNumSteps the last force-constant increment is kept and dU/dk times that stale increment keeps being added to the accumulated work at every step",
}


def config_text(p):
    cv = ["colvar {", "  name z", "  width 1.0", "  distanceZ {", "    main { atomNumbers 1 }", "    ref { dummyAtom (0,0,0) }", "    axis (0,0,1)", "  }", "}"]
    b = ["harmonic {", "  name h", "  colvars z", "  centers %d.0" % p["c0"], "  forceConstant %d.0" % p["k0"]]
    kind = p["kind"]
    if kind in ("cmove", "cstage"):
        b += ["  targetCenters %d.0" % p["c1"], "  targetNumSteps %d" % p["n"]]
        if kind == "cstage":
            b.append("  targetNumStages %d" % p["ns"])
    if kind in ("kmove", "kstage"):
        b += ["  targetForceConstant %d.0" % p["k1"], "  targetNumSteps %d" % p["n"]]
        if p["exp"] != 1:
            b.append("  lambdaExponent %d.0" % p["exp"])
        if kind == "kstage":
            b.append("  targetNumStages %d" % p["ns"])
            if p["equil"]:
                b.append("  targetEquilSteps %d" % p["equil"])
    if p["work"]:
        b.append("  outputAccumulatedWork on")
    b.append("}")
    return "\n".join(cv + b) + "\n"


def parse_state(st):
    m = re.search(r"restraint \{\s*configuration \{(.*?)\n  \}", st, re.S)
    out = {}
    if m:
        for line in m.group(1).splitlines():
            t = line.split()
            if len(t) >= 2:
                out[t[0]] = t[1:]
    return out


TI_RE = re.compile(r"Restraint h Lambda= (\S+) dA/dLambda= (\S+)")


class Runner:
    def __init__(self, drv, p, off=0, rmode=0):
        # off: absolute engine step at which the job starts and the restraint is defined (the specification's step is
        # relative to that origin: "step - firstStep"); rmode 1: a resumed job's engine announces its first step
        # before the configuration is parsed (as NAMD's firsttimestep does), rmode 0: the step comes from the state only
        self.d, self.p, self.off, self.rmode, self.abs_it = drv, p, off, rmode, off
        self.cfg = config_text(p)
        self.ti = []
        self.start()

    def start(self, state=None):
        self.d.cmd(op="new", natoms=2, step0=(self.off if state is None else (self.abs_it if self.rmode else 0)))
        r = self.d.cmd(op="config", text=self.cfg)
        if r.get("op") == "died" or r.get("rc") != 0:
            raise vlib.MachineryError("C06 config rejected: %s" % r)
        if state is not None:
            r = self.d.cmd(op="load", state=state)
            if r.get("rc") != 0:
                raise vlib.MachineryError("C06 state load failed: %s" % r)
        self.d.cmd(op="log")

    def act(self, a, x):
        if a == "Restart":
            st = self.d.cmd(op="save")["state"]
            self.d.cmd(op="destroy")
            self.start(st)
        r = self.d.cmd(op="step", pos=[[0, 0, float(x)], [0, 0, 0]], newrun=(a == "NewRun"))
        if r.get("op") == "died":
            return r
        lg = self.d.cmd(op="log").get("text", "")
        for m in TI_RE.finditer(lg):
            self.ti.append((float(m.group(1)), float(m.group(2))))
        st = parse_state(self.d.cmd(op="save")["state"])
        self.abs_it = r["it"]
        return {"it": r["it"] - self.off, "E": r["E"], "F": r["cvs"]["z"]["fa"][0], "fat": r["fat"].get("0", [0, 0, 0])[2],
                "cen": float(st["centers"][0]) if "centers" in st else None,
                "k": float(st["forceConstant"][0]) if "forceConstant" in st else None,
                "stage": int(st["stage"][0]) if "stage" in st else None,
                "work": float(st["accumulatedWork"][0]) if "accumulatedWork" in st else None,
                "ti": list(self.ti)}


def cmp_act(p, ks, a, got, prop):
    """Compare with the mechanism (prop = False) or with the property-level schedule (prop = True).  Returns list of differences."""
    bad = []
    kind = p["kind"]
    if got["it"] != a["it"]:
        bad.append("step %r vs %r" % (got["it"], a["it"]))
    cen = a["ce"] if prop else a["cen"]
    k = (a["ke"] if prop else a["k"]) / ks
    d = a["x"] - cen
    e = 0.5 * k * d * d if prop else a["e"] / (2.0 * ks)
    f = -k * d if prop else a["f"] / ks
    if not close(got["E"], e):
        bad.append("energy %r vs %r" % (got["E"], e))
    if not close(got["F"], f) or not close(got["fat"], f):
        bad.append("force %r/%r vs %r" % (got["F"], got["fat"], f))
    if kind in ("cmove", "cstage") and got["cen"] is not None and not close(got["cen"], cen):
        bad.append("centre %r vs %r" % (got["cen"], cen))
    if kind in ("kmove", "kstage") and got["k"] is not None and not close(got["k"], k):
        bad.append("force constant %r vs %r" % (got["k"], k))
    if prop:
        if p["work"] and got["work"] is not None and not close(got["work"], a["we"] / (2.0 * ks)):
            bad.append("accumulated work %r vs sum over physical steps %r" % (got["work"], a["we"] / (2.0 * ks)))
        if kind == "kstage":
            exp = [(t["lam"] / p["ns"], t["sum"] / (2.0 * p["ns"]) / (p["n"] - p["equil"])) for t in a["tie"]]
            gti = got["ti"][:len(exp)] if len(got["ti"]) >= len(exp) else got["ti"]
            if len(exp) != len(gti) or any(not close(x[0], y[0]) or not close(x[1], y[1]) for x, y in zip(exp, gti)):
                bad.append("TI (lambda, dA/dLambda) %r vs stage means %r" % (got["ti"], exp))
    if not prop:
        if kind in ("cstage", "kstage") and got["stage"] is not None and got["stage"] != a["stage"]:
            bad.append("stage %r vs %r" % (got["stage"], a["stage"]))
        if p["work"] and got["work"] is not None and not close(got["work"], a["work"] / (2.0 * ks)):
            bad.append("accumulated work %r vs %r" % (got["work"], a["work"] / (2.0 * ks)))
        if kind == "kstage":
            exp = [(t["lam"] / p["ns"], t["sum"] / (2.0 * p["ns"]) / (p["n"] - p["equil"])) for t in a["ti"]]
            if len(exp) != len(got["ti"]) or any(not close(x[0], y[0]) or not close(x[1], y[1]) for x, y in zip(exp, got["ti"])):
                bad.append("TI lines %r vs %r" % (got["ti"], exp))
    return bad


def replay_chunk(args):
    behs, seed = args
    rng = random.Random(seed + 606)
    d = vlib.Drv()
    out = []
    try:
        for beh in behs:
            p, ks = beh["p"], beh["ks"]
            try:
                run = Runner(d, p, off=rng.choice([0, 0, 3, 7]), rmode=rng.choice([0, 1]))
            except vlib.MachineryError as e:
                out.append(("machinery", str(e), beh))
                continue
            res = ("ok", None, None)
            known = None
            for i, a in enumerate(beh["acts"]):
                got = run.act(a["a"], a["x"])
                if got.get("op") == "died":
                    res = ("mismatch", {"act": i, "fields": ["died signal %s" % got.get("signal")]}, beh)
                    break
                bad = cmp_act(p, ks, a, got, False)
                if not bad:
                    if a["q"] and known is None:
                        pb = cmp_act(p, ks, a, got, True)
                        if pb:
                            known = (sorted(a["q"]), i, "; ".join(pb[:2]))
                    continue
                if a["q"] and not cmp_act(p, ks, a, got, True):
                    continue
                res = ("mismatch", {"act": i, "fields": bad, "quirk": a["q"], "got": got}, beh)
                break
            if res[0] == "ok" and known:
                res = ("known", {"keys": known[0], "act": known[1], "what": known[2]}, beh)
            out.append(res)
            if d.dead:
                d = vlib.Drv()
            else:
                d.cmd(op="destroy")
    finally:
        d.close()
    return [(s, i, (b if s != "ok" else None)) for s, i, b in out]


def on_result(ctx, what):
    def f(status, info, beh):
        if status == "known":
            for key in info["keys"]:
                ctx.violation(key, KNOWN.get(key, key) + " (e.g. action %d: %s)" % (info["act"], info["what"]), {"behaviour": beh, "info": info})
        else:
            ctx.violation("replay-mismatch", "%s: %s restraint, action %d: %s" % (what, beh["p"]["kind"], info["act"], "; ".join(info["fields"][:3])), {"behaviour": beh, "info": info})
    return f


def nontrivial_key(beh):
    """non-trivial: a run boundary (new run / restart) strictly inside a schedule, or a completed stage"""
    p = beh["p"]
    if p["kind"] == "fixed":
        return None
    for a in beh["acts"]:
        if a["a"] in ("NewRun", "Restart") and 0 < a["it"] <= p["n"] * max(1, p["ns"]):
            return json.dumps([p, [(x["a"], x["x"]) for x in beh["acts"]]], sort_keys=True)
    return None


def P(kind, n, ns, equil, exp, work, c0, c1, k0, k1):
    return {"kind": kind, "n": n, "ns": ns, "equil": equil, "exp": exp, "dec": False, "work": work, "c0": c0, "c1": c1, "k0": k0, "k1": k1}


TRACE_PARAMS = [P("fixed", 1, 1, 0, 1, False, 1, 1, 2, 2), P("cmove", 4, 1, 0, 1, True, 0, 4, 1, 1), P("cmove", 3, 1, 0, 1, True, 3, 0, 2, 2),
                P("cstage", 2, 2, 0, 1, False, 0, 4, 1, 1), P("cstage", 3, 3, 0, 1, False, 0, 3, 2, 2), P("kmove", 2, 1, 0, 1, True, 1, 1, 0, 2),
                P("kmove", 4, 1, 0, 2, True, 1, 1, 1, 5), P("kmove", 3, 1, 0, 1, False, 0, 0, 3, 0), P("kstage", 2, 2, 0, 1, False, 1, 1, 0, 2),
                P("kstage", 3, 2, 1, 1, False, 1, 1, 0, 2), P("kstage", 3, 1, 2, 2, False, 0, 0, 1, 3), P("kstage", 2, 3, 0, 2, False, 0, 0, 0, 9)]


def record_traces(ctx, nruns, nsteps):
    """Seeded random executions of the real restraint; one event per specification action with the observed state."""
    rng = random.Random(ctx.seed + 606)
    events = []
    d = vlib.Drv()
    try:
        for ri in range(nruns):
            p = TRACE_PARAMS[ri % len(TRACE_PARAMS)]
            ks = p["n"] * p["n"] * p["ns"]
            r = Runner(d, p, off=rng.choice([0, 0, 2, 5]), rmode=rng.choice([0, 1]))
            events.append({"a": "Reset", "p": p})
            x, runs, first = 0, 1, True
            for k in range(nsteps):
                u = rng.random()
                if first:
                    a = "First"
                elif u < 0.1 and runs < 10:
                    a = "NewRun"
                elif u < 0.2 and runs < 10:
                    a = "Restart"
                else:
                    a = "Step"
                if a in ("First", "Step"):
                    x = rng.choice([-1, 0, 2, 3])
                else:
                    runs += 1
                got = r.act(a, x)
                if got.get("op") == "died":
                    ctx.violation("crash", "restraint %s died at action %d" % (json.dumps(p), k), {"p": p})
                    break
                first = False
                hc = p["kind"] in ("cmove", "cstage") and got["cen"] is not None
                hk = p["kind"] in ("kmove", "kstage") and got["k"] is not None
                hs = p["kind"] in ("cstage", "kstage") and got["stage"] is not None
                hw = bool(p["work"]) and got["work"] is not None
                events.append({"a": a, "x": x, "it": got["it"], "e": vlib.lat(got["E"], 2 * ks), "f": vlib.lat(got["F"], ks),
                               "hc": hc, "cen": vlib.lat(got["cen"], 1) if hc else 0,
                               "hk": hk, "k": vlib.lat(got["k"], ks) if hk else 0,
                               "hs": hs, "stage": got["stage"] if hs else 0,
                               "hw": hw, "work": vlib.lat(got["work"], 2 * ks) if hw else 0})
                if a in ("NewRun", "Restart"):
                    ctx.nontriv(["trace", ri, k])
    finally:
        d.close()
    return events


def run(ctx):
    ctx.rule = ("behaviours = First/Step/NewRun/Restart sequences over 3 lattice values for 12 schedules (fixed, continuous and staged moving centre, "
                "continuous and staged force constant with lambdaExponent 1/2 and equilibration, accumulated work); non-trivial = a run boundary or restart inside the schedule; distinct by (params, actions)")
    ctx.assumptions = [
        "scalar variable = distanceZ of one atom, width 1; integer centres and force constants chosen so that every scheduled value is an exact rational (scaled by N*N*NS)",
        "centres, force constant, stage and accumulated work are observed through the saved state text; TI averages through the module's log lines",
        "decoupling, lambdaSchedule and non-integer lambdaExponent are not covered by this check",
    ]
    vlib.build()
    quick = ctx.quick()
    r = vlib.tlc("MCRestraint", "MCRestraint_mc_quick.cfg" if quick else "MCRestraint_mc_thorough.cfg", workers=16, timeout=3000, xmx="24g")
    ctx.add_tlc(r, "MCRestraint properties")
    if r.violation:
        ctx.violation("model:" + r.violation, "design-level invariant %s violated in spec/Restraint.tla" % r.violation, {"tlc": vlib.counterexample(r)})
        return
    w = vlib.tlc("MCWalls", "MCWalls.cfg", workers=8, timeout=600)
    ctx.add_tlc(w, "Walls closed forms")
    if w.violation:
        ctx.violation("model:" + w.violation, "Walls.tla violates %s" % w.violation, {"tlc": vlib.counterexample(w)})
    import c06walls
    c06walls.replay(ctx, w.beh)
    g = vlib.tlc("MCRestraint", "MCRestraint_gen.cfg", workers=16, timeout=900)
    ctx.add_tlc(g, "MCRestraint generation (BFS)")
    behs = g.beh
    rng = random.Random(ctx.seed)
    rng.shuffle(behs)
    if quick:
        behs = behs[:4000]
    s = vlib.tlc("MCRestraint", "MCRestraint_sim.cfg", workers=8, simulate=(250 if quick else 4000), depth=12, seed=ctx.seed, timeout=900)
    ctx.add_tlc(s, "MCRestraint generation (simulation)", exhaustive=False)
    ctx.exhaustive = True
    sb = s.beh[:(1200 if quick else 40000)]
    for b in behs[:2] + sb[:1]:
        ctx.sample(b)
    for b in behs + sb:
        k = nontrivial_key(b)
        if k:
            ctx.nontriv(k)
    vlib.replay_parallel(ctx, behs, replay_chunk, on_result(ctx, "bfs"), "bfs")
    vlib.replay_parallel(ctx, sb, replay_chunk, on_result(ctx, "simulation"), "simulation")
    validate_recorded(ctx)


def validate_recorded(ctx):
    ev = record_traces(ctx, 36 if ctx.quick() else 400, 14)
    r = vlib.validate_trace(ctx, "RestraintTrace", "RestraintTrace.cfg", ev, "recorded restraint executions", nexec=sum(1 for e in ev if e["a"] == "Reset"))
    # the named deviations met by accepted recorded executions are only applicability marks here; they are reported by the replay
    # side, where the real code's value is compared with the property's


def replay(ctx, path):
    j = json.load(open(path))
    beh = j["payload"].get("behaviour")
    if beh:
        vlib.replay_parallel(ctx, [beh], replay_chunk, on_result(ctx, "replay"), "replay")
