"""C01: applied atomic forces are the exact negative gradient of the reported energy.
Part A: spec/Forces.tla - an exact integer model of the chain bias -> variable (componentCoeff/componentExp) -> component ->
mass-weighted groups (overlapping) -> atoms; TLC checks F = -dE/dr with the five-point stencil (exact for the quartic
energy) for every parameter record and lattice geometry and prints every case; each is replayed into the real code and the
energy and every atom's force compared exactly.
Part B: spec/ForceLawTrace.tla - probes recorded from the real code for every component type, group option and
differentiable bias available in this build are validated by TLC against dE + 2h F.d = 0."""
import json, math, os, random, shutil
import vlib
from vlib import close

H = 1e-4
NAT = 9


# ---------------------------------------------------------------------------------------------- part A
def cfg_a(p):
    def grp(s):
        return " ".join(str(a) for a in sorted(s))
    cv = ("colvar {\n  name x\n  distanceZ {\n    main { atomNumbers %s }\n    ref { atomNumbers %s }\n    axis (0,0,1)\n    componentCoeff %d.0\n  }\n" % (grp(p["main"]), grp(p["ref"]), p["c1"]))
    if p["c2"]:
        cv += "  distanceZ {\n    main { atomNumbers 1 }\n    ref { atomNumbers 3 }\n    axis (1,0,0)\n    componentCoeff %d.0\n    componentExp 2\n  }\n" % p["c2"]
    cv += "}\n"
    b = ""
    if p["k"]:
        b += "harmonic {\n  name h\n  colvars x\n  centers %d.0\n  forceConstant %d.0\n}\n" % (p["x0"], p["k"])
    if p["kl"]:
        b += "linear {\n  name lin\n  colvars x\n  centers 0.0\n  forceConstant %d.0\n}\n" % p["kl"]
    return cv + b


def chunk_a(args):
    cases, seed = args
    out = []
    d = vlib.Drv()
    try:
        last = None
        for c in cases:
            p = c["p"]
            key = json.dumps(p, sort_keys=True)
            if key != last:
                d.cmd(op="new", natoms=3, masses=[float(m) for m in p["m"]])
                r = d.cmd(op="config", text=cfg_a(p))
                if r.get("rc") != 0:
                    out.append(("machinery", "configuration rejected: %s" % r.get("errtext"), None))
                    last = None
                    continue
                last = key
            r = d.cmd(op="step", pos=[[float(x) for x in q] for q in c["pos"]])
            if r.get("op") != "step":
                out.append(("mismatch", {"key": "crash", "what": "process died"}, c))
                last = None
                continue
            bad = None
            if not close(r["E"], c["e"] / 512.0, 1e-10):
                bad = {"key": "energy", "what": "energy %r, specification %r" % (r["E"], c["e"] / 512.0)}
            else:
                for a in range(3):
                    got = r["fat"].get(str(a), [0.0, 0.0, 0.0])
                    for ax in range(3):
                        want = c["f"][a][ax] / 256.0
                        if not close(got[ax], want, 1e-10):
                            bad = {"key": "force", "what": "atom %d axis %d: force %r, specification %r (energy %r)" % (a + 1, ax, got[ax], want, r["E"])}
                            break
                    if bad:
                        break
            out.append(("ok", None, None) if bad is None else ("mismatch", bad, c))
    finally:
        d.close()
    out.sort(key=lambda x: 0)
    return out


# ---------------------------------------------------------------------------------------------- part B
REF4 = "(0.0, 0.0, 0.0) (2.0, 0.0, 0.5) (0.0, 2.5, 0.0) (1.0, 1.0, 3.0)"
REF3 = "(0.0, 0.0, 0.0) (2.0, 0.0, 0.5) (0.0, 2.5, 0.0)"
FITOPT = "      centerToReference on\n      rotateToReference on\n      refPositions %s\n" % REF4
FITGRP = "      centerToReference on\n      rotateToReference on\n      fittingGroup { atomNumbers 5 6 7 8 }\n      refPositions %s\n" % REF4
CENTOPT = "      centerToReference on\n      refPositions %s\n" % REF3

# name -> (component text, kind of value: scalar | vec3 | unit | quat | vecN, periodic)
COMPS = {
    "distance": ("distance {\n    group1 { atomNumbers 1 2 }\n    group2 { atomNumbers 3 4 }\n  }\n", "scalar"),
    "distance-onesite": ("distance {\n    group1 { atomNumbers 1 2 }\n    group2 { atomNumbers 3 4 }\n    oneSiteTotalForce on\n  }\n", "scalar"),
    "distanceZ": ("distanceZ {\n    main { atomNumbers 1 2 }\n    ref { atomNumbers 3 4 }\n    axis (1, 2, 2)\n  }\n", "scalar"),
    "distanceZ-ref2": ("distanceZ {\n    main { atomNumbers 1 2 }\n    ref { atomNumbers 3 4 }\n    ref2 { atomNumbers 5 6 }\n  }\n", "scalar"),
    "distanceXY": ("distanceXY {\n    main { atomNumbers 1 2 }\n    ref { atomNumbers 3 4 }\n    axis (0, 1, 1)\n  }\n", "scalar"),
    "distanceXY-ref2": ("distanceXY {\n    main { atomNumbers 1 2 }\n    ref { atomNumbers 3 4 }\n    ref2 { atomNumbers 5 6 }\n  }\n", "scalar"),
    "distanceVec": ("distanceVec {\n    group1 { atomNumbers 1 2 }\n    group2 { atomNumbers 3 4 }\n  }\n", "vec3"),
    "distanceDir": ("distanceDir {\n    group1 { atomNumbers 1 2 }\n    group2 { atomNumbers 3 4 }\n  }\n", "unit"),
    "distanceInv": ("distanceInv {\n    group1 { atomNumbers 1 2 }\n    group2 { atomNumbers 3 4 }\n    exponent 4\n  }\n", "scalar"),
    "distance-dummy": ("distance {\n    group1 { atomNumbers 1 2 }\n    group2 { dummyAtom (0.5, -1.0, 2.0) }\n  }\n", "scalar"),
    "angle": ("angle {\n    group1 { atomNumbers 1 }\n    group2 { atomNumbers 2 3 }\n    group3 { atomNumbers 4 }\n  }\n", "scalar"),
    "dipoleAngle": ("dipoleAngle {\n    group1 { atomNumbers 1 2 3 }\n    group2 { atomNumbers 4 }\n    group3 { atomNumbers 5 6 }\n  }\n", "scalar"),
    "dihedral": ("dihedral {\n    group1 { atomNumbers 1 }\n    group2 { atomNumbers 2 }\n    group3 { atomNumbers 3 }\n    group4 { atomNumbers 4 5 }\n  }\n", "periodic"),
    "polarTheta": ("polarTheta {\n    atoms { atomNumbers 1 2 3 }\n  }\n", "scalar"),
    "polarPhi": ("polarPhi {\n    atoms { atomNumbers 1 2 3 }\n  }\n", "periodic"),
    "gyration": ("gyration {\n    atoms { atomNumbers 1 2 3 4 5 }\n  }\n", "scalar"),
    "inertia": ("inertia {\n    atoms { atomNumbers 1 2 3 4 5 }\n  }\n", "scalar"),
    "inertiaZ": ("inertiaZ {\n    atoms { atomNumbers 1 2 3 4 5 }\n    axis (1, 0, 1)\n  }\n", "scalar"),
    "dipoleMagnitude": ("dipoleMagnitude {\n    atoms { atomNumbers 1 2 3 4 }\n  }\n", "scalar"),
    "rmsd": ("rmsd {\n    atoms { atomNumbers 1 2 3 4 }\n    refPositions %s\n  }\n" % REF4, "scalar"),
    "rmsd-fitgroup": ("rmsd {\n    atoms {\n      atomNumbers 1 2 3\n      centerToReference on\n      rotateToReference on\n      fittingGroup { atomNumbers 5 6 7 8 }\n      refPositions %s\n    }\n    refPositions %s\n  }\n" % (REF4, REF3), "scalar"),
    "orientation": ("orientation {\n    atoms { atomNumbers 1 2 3 4 }\n    refPositions %s\n  }\n" % REF4, "quat"),
    "orientationAngle": ("orientationAngle {\n    atoms { atomNumbers 1 2 3 4 }\n    refPositions %s\n  }\n" % REF4, "scalar"),
    "orientationProj": ("orientationProj {\n    atoms { atomNumbers 1 2 3 4 }\n    refPositions %s\n  }\n" % REF4, "scalar"),
    "tilt": ("tilt {\n    atoms { atomNumbers 1 2 3 4 }\n    refPositions %s\n    axis (0, 0, 1)\n  }\n" % REF4, "scalar"),
    "spinAngle": ("spinAngle {\n    atoms { atomNumbers 1 2 3 4 }\n    refPositions %s\n    axis (0, 0, 1)\n  }\n" % REF4, "periodic"),
    "coordNum": ("coordNum {\n    group1 { atomNumbers 1 2 }\n    group2 { atomNumbers 3 4 5 }\n    cutoff 3.0\n  }\n", "scalar"),
    "coordNum-aniso": ("coordNum {\n    group1 { atomNumbers 1 2 }\n    group2 { atomNumbers 3 4 5 }\n    cutoff3 (2.0, 3.0, 4.0)\n    expNumer 4\n    expDenom 8\n  }\n", "scalar"),
    "coordNum-g2center": ("coordNum {\n    group1 { atomNumbers 1 2 }\n    group2 { atomNumbers 3 4 5 }\n    cutoff 3.0\n    group2CenterOnly on\n  }\n", "scalar"),
    "selfCoordNum": ("selfCoordNum {\n    group1 { atomNumbers 1 2 3 4 }\n    cutoff 3.0\n  }\n", "scalar"),
    "hBond": ("hBond {\n    acceptor 1\n    donor 2\n    cutoff 3.0\n  }\n", "scalar"),
    "groupCoord": ("groupCoord {\n    group1 { atomNumbers 1 2 }\n    group2 { atomNumbers 3 4 5 }\n    cutoff 3.0\n  }\n", "scalar"),
    "cartesian": ("cartesian {\n    atoms { atomNumbers 1 2 }\n  }\n", "vec6"),
    "cartesian-fit": ("cartesian {\n    atoms {\n      atomNumbers 1 2 3 4\n%s    }\n  }\n" % FITOPT, "vec12"),
    "cartesian-fitgroup": ("cartesian {\n    atoms {\n      atomNumbers 1 2\n%s    }\n  }\n" % FITGRP, "vec6"),
    "distanceVec-fitgroup": ("distanceVec {\n    group1 {\n      atomNumbers 1 2 3\n%s    }\n    group2 { atomNumbers 4 }\n  }\n" % FITGRP, "vec3"),
    "distance-center": ("distanceZ {\n    main {\n      atomNumbers 1 2 3\n%s    }\n    ref { dummyAtom (0.0, 0.0, 0.0) }\n    axis (0, 1, 0)\n  }\n" % CENTOPT, "scalar"),
    "distancePairs": ("distancePairs {\n    group1 { atomNumbers 1 2 }\n    group2 { atomNumbers 3 4 }\n  }\n", "vec4"),
    "combo": ("distance {\n    group1 { atomNumbers 1 2 }\n    group2 { atomNumbers 3 }\n    componentCoeff 2.0\n    componentExp 2\n  }\n  angle {\n    group1 { atomNumbers 2 }\n    group2 { atomNumbers 4 }\n    group3 { atomNumbers 5 }\n    componentCoeff -0.05\n  }\n", "scalar"),
    "combo-shared": ("distance {\n    group1 { atomNumbers 1 2 }\n    group2 { atomNumbers 3 }\n    componentCoeff 1.5\n  }\n  distanceZ {\n    main { atomNumbers 2 3 }\n    ref { atomNumbers 1 }\n    componentCoeff -0.5\n    componentExp 3\n  }\n", "scalar"),
}


def bias_text(kind, name, rng, which, x):
    """Bias placed near the current value x (list of numbers) so that energies and forces stay moderate."""
    sc = max(1.0, 0.05 * max(abs(v) for v in x))
    if which == "harmonic":
        c = [v + rng.uniform(0.2, 0.6) * sc * rng.choice([-1, 1]) for v in x]
        if kind in ("unit", "quat"):
            n = math.sqrt(sum(v * v for v in c))
            c = [v / n for v in c]
        cs = ("%r" % c[0]) if len(c) == 1 else "(" + ", ".join("%r" % v for v in c) + ")"
        return "harmonic {\n  name b\n  colvars %s\n  centers %s\n  forceConstant 2.5\n}\n" % (name, cs)
    if which == "walls":
        lo, hi = x[0] + 0.4 * sc, x[0] + 2.0 * sc
        if rng.random() < 0.5:
            lo, hi = x[0] - 2.0 * sc, x[0] - 0.4 * sc
        return "harmonicWalls {\n  name b\n  colvars %s\n  lowerWalls %r\n  upperWalls %r\n  forceConstant 3.0\n}\n" % (name, lo, hi)
    if which == "linear":
        return "linear {\n  name b\n  colvars %s\n  centers 0.0\n  forceConstant 1.5\n}\n" % name
    raise ValueError(which)


def geometry(rng, cell):
    P = []
    while len(P) < NAT:
        c = [rng.uniform(-3.0, 3.0) for _ in range(3)]
        if all(sum((c[i] - q[i]) ** 2 for i in range(3)) > 1.2 for q in P):
            P.append(c)
    return P


def scenario_list(quick, rng):
    out = []
    for comp, (txt, kind) in COMPS.items():
        biases = ["harmonic"]
        if kind == "scalar":
            biases += ["walls", "linear"]
        elif kind == "periodic":
            biases += ["walls"]
        for b in biases:
            out.append({"comp": comp, "kind": kind, "bias": b, "cell": None, "meta": False})
    # minimum-image boundaries
    for comp in ("distance", "distanceZ", "distanceXY", "distanceVec", "coordNum", "angle", "dihedral", "distanceInv"):
        out.append({"comp": comp, "kind": COMPS[comp][1], "bias": "harmonic", "cell": [7.0, 8.0, 9.0], "meta": False})
    # metadynamics without grids (analytic hills) on a non-periodic and on a periodic variable
    for comp in ("distance", "dihedral", "polarPhi"):
        out.append({"comp": comp, "kind": COMPS[comp][1], "bias": "meta", "cell": None, "meta": True})
    return out


def build(sc, rng, x=None):
    cv = "colvar {\n  name q\n  %s}\n" % COMPS[sc["comp"]][0]
    if x is None:
        return cv
    if sc["meta"]:
        sig = 25.0 if sc["kind"] == "periodic" else 0.4
        b = "metadynamics {\n  name b\n  colvars q\n  hillWeight 0.5\n  gaussianSigmas %r\n  newHillFrequency 1\n  useGrids off\n}\n" % sig
    else:
        b = bias_text(sc["kind"], "q", rng, sc["bias"], x)
    return cv + b


def evaluate(d, cfgtext, masses, charges, cell, history, pos):
    """Energy and forces for one geometry in a fresh module; history = geometries visited before (deposits hills)."""
    new = {"op": "new", "natoms": NAT, "masses": masses, "charges": charges}
    if cell:
        new["cell"] = cell
    cmds = [new, {"op": "config", "text": cfgtext}]
    for hp in history:
        cmds.append({"op": "step", "pos": hp})
    cmds.append({"op": "step", "pos": pos})
    r = d.cmd(op="seq", cmds=cmds)
    if r.get("op") != "seq":
        return None
    if r["replies"][1].get("rc") != 0:
        return {"rejected": r["replies"][1].get("errtext")}
    return r["replies"][-1]


def probe_chunk(args):
    scs, seed = args
    scs = list(scs)
    rng = random.Random(seed)
    out = []
    d = vlib.Drv(timeout=60)
    try:
        for sc in scs:
            masses = [rng.choice([1.0, 2.0, 12.0, 16.0]) for _ in range(NAT)]
            charges = [rng.choice([-1.0, -0.5, 0.5, 1.0]) for _ in range(NAT)]
            pos = geometry(rng, sc["cell"])
            if sc["cell"]:
                # move a whole group's atoms across the cell so that the minimum image matters
                for a in (2, 3):
                    pos[a][0] += sc["cell"][0]
            history = [geometry(rng, sc["cell"]) for _ in range(3)] if sc["meta"] else []
            rv = evaluate(d, build(sc, rng), masses, charges, sc["cell"], [], pos)
            if rv is None or "rejected" in rv:
                out.append((sc, None, {"key": "machinery", "what": "variable rejected: %s" % (rv or {}).get("rejected")}))
                continue
            cfgtext = build(sc, rng, rv["cvs"]["q"]["x"])
            r0 = evaluate(d, cfgtext, masses, charges, sc["cell"], history, pos)
            if r0 is None or d.dead:
                out.append((sc, None, {"key": "crash", "what": "process died"}))
                d.close()
                d = vlib.Drv(timeout=60)
                continue
            if "rejected" in r0:
                out.append((sc, None, {"key": "machinery", "what": "scenario rejected: %s" % r0["rejected"]}))
                continue
            E0 = r0["E"]
            probes = []
            for a in range(NAT):
                F = r0["fat"].get(str(a), [0.0, 0.0, 0.0])
                for ax in range(3):
                    pp = [list(q) for q in pos]
                    pm = [list(q) for q in pos]
                    pp[a][ax] += H
                    pm[a][ax] -= H
                    rp = evaluate(d, cfgtext, masses, charges, sc["cell"], history, pp)
                    rm = evaluate(d, cfgtext, masses, charges, sc["cell"], history, pm)
                    if rp is None or rm is None or rp.get("E") is None or rm.get("E") is None or E0 is None:
                        probes = None
                        break
                    de = rp["E"] - rm["E"]
                    tf = 2 * H * F[ax]
                    scale = max(abs(tf), abs(de))
                    if abs(de + tf) > 1e-7 + 2e-4 * scale:
                        # wrong force, or a geometry where the variable is not differentiable (documented singular geometries)?
                        # a smooth energy gives half the difference for half the displacement, whatever the force is
                        ph = [list(q) for q in pos]
                        mh = [list(q) for q in pos]
                        ph[a][ax] += H / 2
                        mh[a][ax] -= H / 2
                        rph = evaluate(d, cfgtext, masses, charges, sc["cell"], history, ph)
                        rmh = evaluate(d, cfgtext, masses, charges, sc["cell"], history, mh)
                        if rph is None or rmh is None or rph.get("E") is None or rmh.get("E") is None or \
                                abs((rph["E"] - rmh["E"]) - de / 2.0) > 0.02 * abs(de) + 1e-9:
                            probes = None
                            break
                    if E0 != E0 or scale != scale:
                        probes = None
                        break
                    # 32-bit integers on the TLC side: coarsen the unit for large forces (the tolerance scales with it)
                    unit = 1e-9
                    while scale / unit > 2.0e9:
                        unit *= 10.0
                    probes.append({"e": "Probe", "sc": "%s/%s%s" % (sc["comp"], sc["bias"], "/cell" if sc["cell"] else ""), "atom": a + 1, "ax": ax,
                                   "de": int(round(de / unit)), "tf": int(round(tf / unit)), "tol": int(100 + 2e-4 * scale / unit), "unit": unit})
                if probes is None:
                    break
            if probes is None:
                sc2 = dict(sc)
                sc2["retry"] = sc.get("retry", 0) + 1
                if sc2["retry"] <= 4:
                    scs.append(sc2)         # another random geometry (documented singular geometries give not-a-number)
                else:
                    out.append((sc, None, {"key": "nan", "what": "no finite energy at five random geometries (last E0 = %r)" % E0}))
                continue
            out.append((sc, {"E0": E0, "probes": probes}, None))
    finally:
        d.close()
    return out


def run(ctx):
    ctx.rule = ("part A: every parameter record (3 mass patterns, 4 group shapes incl. overlapping groups, 2 polynomial combinations, 3 bias sets) x every lattice geometry; "
                "part B: one random non-singular geometry (9 atoms, random masses and charges) per scenario = component type x bias (harmonic / walls / linear / analytic metadynamics) x cell, "
                "every atom x every axis probed by central differences; non-trivial = a case with a non-zero force on some atom")
    ctx.assumptions = [
        "part B decides the law at 2 (8 thorough) random geometries per scenario and tier seed, to the truncation error of the central difference (h = 1e-4, tolerance 100e-9 + 2e-4 relative)",
        "not exercised: components that need Tcl, Lepton or protein topologies (scripted, customFunction, alpha, dihedralPC), path variables, alchemical lambda, eigenvector (excluded by the property), ABMD and OPES",
    ]
    vlib.build()
    quick = ctx.quick()
    g = vlib.tlc("MCForces", "MCForces.cfg" if quick else "MCForces_thorough.cfg", workers=16, timeout=3000, xmx="24g")
    ctx.add_tlc(g, "MCForces (five-point stencil on every case + generation)")
    if g.violation:
        ctx.violation("model:" + g.violation, "Forces.tla violates %s" % g.violation, {"tlc": vlib.counterexample(g)})
        return
    cases = g.beh
    cases.sort(key=lambda c: json.dumps(c["p"], sort_keys=True))
    if quick:
        cases = cases[::3]
    for c in cases:
        if any(any(x != 0 for x in fa) for fa in c["f"]):
            ctx.nontriv([c["p"], c["pos"]])
    ctx.sample(cases[0])

    def on(status, info, c):
        ctx.violation("lattice:" + info["key"], "exact lattice case %s at %s: %s" % (json.dumps(c["p"]), c["pos"], info["what"]), {"case": c})
    # keep cases of one parameter record together (one configuration per record)
    n = 16
    per = (len(cases) + n - 1) // n
    chunks = [(cases[i * per:(i + 1) * per], i) for i in range(n) if cases[i * per:(i + 1) * per]]
    for chunk in vlib.parallel_map(chunk_a, chunks, n):
        for status, info, c in chunk:
            ctx.evaluations += 1
            ctx.traces += 1
            if status == "machinery":
                raise vlib.MachineryError(str(info))
            if status != "ok":
                on(status, info, c)
    # part B
    rng = random.Random(ctx.seed)
    scs = scenario_list(quick, rng) * (2 if quick else 8)
    chunks = [(scs[i::16], ctx.seed * 100 + i) for i in range(16) if scs[i::16]]
    events = []
    nsc = 0
    rejected = []
    for chunk in vlib.parallel_map(probe_chunk, chunks, 16):
        for sc, res, bad in chunk:
            name = "%s/%s%s" % (sc["comp"], sc["bias"], "/cell" if sc["cell"] else "")
            if bad:
                if bad["key"] == "machinery":
                    rejected.append("%s: %s" % (name, bad["what"].strip()[:160]))
                    continue
                ctx.violation("probe:%s:%s" % (bad["key"], name), "%s: %s" % (name, bad["what"]), {"scenario": sc})
                continue
            nsc += 1
            events += res["probes"]
            if any(p["tf"] != 0 for p in res["probes"]):
                ctx.nontriv(name + str(nsc))
    ctx.extra["scenarios_probed"] = nsc
    if rejected:
        raise vlib.MachineryError("scenarios not accepted by the implementation: " + " || ".join(sorted(set(rejected))))
    # report every scenario that breaks the law (TLC stops at the first event it cannot match: validate per scenario on rejection)
    r = vlib.validate_trace(ctx, "ForceLawTrace", "ForceLawTrace.cfg", events, "recorded force probes", nexec=nsc, key=None)
    if r is None or not getattr(r, "accepted", False):
        bysc = {}
        for e in events:
            bysc.setdefault(e["sc"], []).append(e)
        for name, evs in bysc.items():
            rr = vlib.validate_trace(ctx, "ForceLawTrace", "ForceLawTrace.cfg", evs, name, nexec=1, key=None, quiet=True)
            if rr is None or not getattr(rr, "accepted", False):
                k = (rr.stuck_at if rr is not None and hasattr(rr, "stuck_at") else 1)
                e = evs[min(max(k - 1, 0), len(evs) - 1)]
                ctx.violation("law:" + name, "%s: atom %d axis %d: energy difference %.3e, 2h x force %.3e (tolerance %.1e): the force is not minus the gradient of the reported energy" % (
                    name, e["atom"], e["ax"], e["de"] * e.get("unit", 1e-9), e["tf"] * e.get("unit", 1e-9), e["tol"] * e.get("unit", 1e-9)), {"scenario": name, "event": e})


def replay(ctx, path):
    j = json.load(open(path))
    c = j["payload"].get("case")
    if c:
        vlib.build()
        for status, info, cc in chunk_a(([c], 0)):
            if status == "mismatch":
                ctx.violation("lattice:" + info["key"], info["what"], {"case": c})
