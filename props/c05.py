"""C05: the metadynamics bias is the sum of the hills deposited on schedule.
spec/Meta.tla (code-shaped mechanism with named deviations vs history-based property), MCMeta, MetaTrace."""
import json, os, re, random, math
import vlib
from vlib import close

S = 65536.0
LN2 = math.log(2.0)
SIG_NARROW = "0.42466090014400953"
HW_WIDE = "1.6986436005760382"

KNOWN = {
    "offgrid-double-count": "off the grid, a hill that is both in the off-grid list and not yet projected (gridsUpdateFrequency > newHillFrequency) is counted twice",
    "offgrid-buffer": "off the grid, hills farther than 3*floor(hillWidth)+1 bins from the boundary are dropped although their analytic value at the position is not zero (1 bin when gaussianSigmas or hillWidth < 1 is used)",
    "restart-offgrid-hills-lost": "with grids and keepHills off, the hills written to the state for off-grid evaluation are skipped by the reader (step <= state step): after a restart the bias is zero outside the grid",
    "restart-nogrid-hills-lost": "with useGrids off (keepHills unavailable) every hill in the state is skipped by the reader: the whole bias is lost on restart",
}


def config_text(p, nb, alt=0):
    """alt = 1: the variable is periodic with a period (40 bins) far larger than anything explored, the grid covers [0, nb) only
    (not periodic); alt = 2: same variable, but the configured boundaries span exactly the period (a periodic grid) - used for the
    module that RESUMES from a state written under alt = 1: the grids of the state, with their own boundaries and their own
    (non-)periodicity, must replace the configured ones."""
    cv = ["colvar {", "  name z", "  width 1.0", "  lowerBoundary 0.0", "  upperBoundary %d.0" % nb]
    if alt == 2:
        cv = ["colvar {", "  name z", "  width 1.0", "  lowerBoundary -20.0", "  upperBoundary 20.0"]
    if p["hardLower"]:
        cv.append("  hardLowerBoundary on")
    if p.get("expand"):
        cv.append("  expandBoundaries on")
    cv += ["  distanceZ {", "    main { atomNumbers 1 }", "    ref { dummyAtom (0,0,0) }", "    axis (0,0,1)"]
    if p["periodic"]:
        cv += ["    period %d.0" % nb, "    wrapAround %s" % (nb / 2.0)]
    elif alt:
        cv += ["    period 40.0", "    wrapAround 0.0"]
    cv += ["  }", "}"]
    m = ["metadynamics {", "  colvars z", "  hillWeight 1.0", "  newHillFrequency %d" % p["hillFreq"]]
    m.append(("  hillWidth " + HW_WIDE) if p["wide"] else ("  gaussianSigmas " + SIG_NARROW))
    if p["useGrids"]:
        m += ["  useGrids on", "  gridsUpdateFrequency %d" % p["gridFreq"], "  keepHills %s" % ("on" if p["keepHills"] else "off")]
    else:
        m += ["  useGrids off"]
    m.append("}")
    return "\n".join(cv + m) + "\n"


def ffac(p):
    return (LN2 if p["wide"] else 4.0 * LN2) / S


class Runner:
    def __init__(self, drv, p, nb, alt=False):
        self.d, self.p, self.nb = drv, p, nb
        self.alt = bool(alt) and not p["periodic"] and p["useGrids"] and not p.get("expand") and not p["hardLower"]
        self.cfg = config_text(p, nb, 1 if self.alt else 0)
        self.start()

    def start(self, state=None):
        self.d.cmd(op="new", natoms=2)
        r = self.d.cmd(op="config", text=(config_text(self.p, self.nb, 2) if (self.alt and state is not None) else self.cfg))
        if r.get("op") == "died" or r.get("rc") != 0:
            raise vlib.MachineryError("C05 config rejected: %s" % r)
        if state is not None:
            r = self.d.cmd(op="load", state=state)
            if r.get("rc") != 0:
                raise vlib.MachineryError("C05 state load failed: %s" % r)

    def act(self, a, x):
        if a == "Restart":
            st = self.d.cmd(op="save")["state"]
            self.d.cmd(op="destroy")
            try:
                self.start(st)
            except vlib.MachineryError as e:
                # a state the implementation has just written and cannot read back is a defect of the implementation
                return {"op": "died", "signal": "the state saved by the implementation is rejected by its own loader (%s)" % str(e)[:300]}
        r = self.d.cmd(op="step", pos=[[0, 0, x / 2.0], [0, 0, 0]], newrun=(a == "NewRun"))
        if r.get("op") == "died":
            return r
        return {"it": r["it"], "E": r["E"], "F": r["cvs"]["z"]["fa"][0], "fat": r["fat"].get("0", [0, 0, 0])[2], "err": r["err"]}


def replay_chunk(args, force_alt=False):
    behs, seed = args
    rng = random.Random(seed + 55)
    d = vlib.Drv()
    out = []
    try:
        for beh in behs:
            p, nb = beh["p"], beh["nb"]
            try:
                run = Runner(d, p, nb, alt=((force_alt or rng.random() < 0.4) and any(a["a"] == "Restart" for a in beh["acts"])))
            except vlib.MachineryError as e:
                out.append(("machinery", str(e), beh))
                continue
            res = ("ok", None, None)
            known = None
            for k, a in enumerate(beh["acts"]):
                got = run.act(a["a"], a["x"])
                if got.get("op") == "died":
                    res = ("mismatch", {"act": k, "fields": ["died signal %s" % got.get("signal")]}, beh)
                    break
                fac = ffac(p)
                ok_mech = got["it"] == a["it"] and close(got["E"], a["e"] / S) and close(got["F"], a["f"] * fac) and close(got["fat"], a["f"] * fac)
                ok_int = got["it"] == a["it"] and close(got["E"], a["ee"] / S) and close(got["F"], a["ef"] * fac)
                if ok_mech:
                    if a["q"] and not ok_int and known is None:
                        known = (sorted(a["q"]), k, "energy %r where the sum of deposited hills is %r" % (got["E"], a["ee"] / S))
                    continue
                if a["q"] and ok_int:
                    continue        # the code follows the property where the model expected the known deviation
                res = ("mismatch", {"act": k, "fields": ["energy/force: spec mechanism E=%r F=%r, property E=%r; got E=%r F=%r atomF=%r it=%r"
                                                         % (a["e"] / S, a["f"] * fac, a["ee"] / S, got["E"], got["F"], got["fat"], got["it"])],
                                    "quirk": a["q"]}, beh)
                break
            if res[0] == "ok" and known:
                res = ("known", {"keys": known[0], "act": known[1], "what": known[2]}, beh)
            out.append(res)
            if d.dead:
                d = vlib.Drv()
            else:
                d.cmd(op="destroy")
    finally:
        d.close()
    return [(s, i, (b if s != "ok" else None)) for s, i, b in out]


def on_result(ctx, what):
    def f(status, info, beh):
        if status == "known":
            # attribute to the first applicable named deviation
            key = info["keys"][0]
            ctx.violation(key, KNOWN.get(key, key) + " (e.g. " + info["what"] + ")", {"behaviour": beh, "info": info})
        else:
            ctx.violation("replay-mismatch", "%s: action %d: %s" % (what, info["act"], "; ".join(info["fields"])), {"behaviour": beh, "info": info})
    return f


def nontrivial_key(beh):
    """non-trivial: a look-up with non-zero bias while off the grid, or with hills pending (between deposition and projection)"""
    nbins = beh["nb"]
    for a in beh["acts"]:
        off = a["x"] < 0 or a["x"] >= 2 * nbins
        if a["e"] > 0 and (off or a["nh"] > 0):
            return json.dumps([beh["p"], [(a["a"], a["x"]) for a in beh["acts"]]], sort_keys=True)
    return None


def record_traces(ctx, nruns, nsteps, nb):
    rng = random.Random(ctx.seed + 505)
    events = []
    d = vlib.Drv()
    try:
        for run_i in range(nruns):
            hf = rng.choice([1, 1, 2, 3])
            p = {"wide": rng.random() < 0.4, "hillFreq": hf, "gridFreq": hf * rng.choice([1, 1, 2]), "useGrids": rng.random() < 0.85,
                 "keepHills": rng.random() < 0.4, "hardLower": rng.random() < 0.2, "periodic": rng.random() < 0.25}
            if not p["useGrids"]:
                p["keepHills"] = False
                p["gridFreq"] = hf
            run = Runner(d, p, nb)
            events.append({"e": "Reset", "p": p})
            first, runs, lastx = True, 1, 0
            for k in range(nsteps):
                u = rng.random()
                a = "First" if first else ("NewRun" if u < 0.07 and runs < 3 else ("Restart" if u < 0.14 and runs < 3 else "Step"))
                if a in ("NewRun", "Restart"):
                    runs += 1
                    x = lastx
                else:
                    x = rng.randint(-4, 2 * nb + 3)
                    if p["wide"] and x % 2 == 0:
                        x += 1
                lastx, first = x, False
                got = run.act(a, x)
                if got.get("op") == "died":
                    ctx.violation("crash", "implementation died during a recorded run", {"p": p, "events": events[-5:]})
                    d = vlib.Drv()
                    break
                events.append({"e": a, "x": x, "it": got["it"], "E": vlib.lat(got["E"], S), "F": vlib.lat(got["F"] / (ffac(p) * S), S)})
            d.cmd(op="destroy")
    finally:
        d.close()
    return events


def run(ctx):
    ctx.rule = ("behaviours = First/Step/NewRun/Restart sequences over half-bin lattice positions (incl. beyond both boundaries) for every "
                "parameter record (hill/grid frequencies, wide/narrow hills, grids, keepHills, hard boundary, periodic); non-trivial = a "
                "look-up with non-zero bias off the grid or between deposition and projection; distinct by (params, positions)")
    ctx.assumptions = [
        "dyadic Gaussians: sigma chosen so that a hill at lattice distance d is exactly 2^-(d*d); the harness scales energies by 2^16 and forces by the common factor 4 ln 2 (ln 2 for wide hills)",
        "variable = distanceZ of one atom (value = z); hillWeight 1; well-tempered, ebMeta, expandBoundaries, rebinGrids and multi-dimensional biases are not covered by this check",
        "saving a state projects pending hills (property side counts a save as a tabulation event)",
    ]
    ctx.trusted += ["closing factors 4 ln 2 / ln 2 / 2^16 applied by props/c05.py"]
    vlib.build()
    quick = ctx.quick()
    r = vlib.tlc("MCMeta", "MCMeta_mc_quick.cfg" if quick else "MCMeta_mc_thorough.cfg", workers=16, timeout=3000, xmx="24g")
    ctx.add_tlc(r, "MCMeta properties")
    if r.violation:
        ctx.violation("model:" + r.violation, "design-level invariant %s violated in spec/Meta.tla" % r.violation, {"tlc": vlib.counterexample(r)})
        return
    g = vlib.tlc("MCMeta", "MCMeta_gen.cfg", workers=16, timeout=900)
    ctx.add_tlc(g, "MCMeta generation (BFS)")
    behs = g.beh
    rng = random.Random(ctx.seed)
    rng.shuffle(behs)
    if quick:
        behs = behs[:5000]
    s = vlib.tlc("MCMeta", "MCMeta_sim.cfg", workers=8, simulate=(250 if quick else 4000), depth=10, seed=ctx.seed, timeout=900)
    ctx.add_tlc(s, "MCMeta generation (simulation)", exhaustive=False)
    ctx.exhaustive = True
    sb = list(s.beh)
    random.Random(ctx.seed + 13).shuffle(sb)      # TLC prints simulated behaviours grouped by worker and parameter record
    sb = sb[:(1500 if quick else 40000)]
    for b in behs[:2] + sb[:1]:
        ctx.sample(b)
    for b in behs + sb:
        k = nontrivial_key(b)
        if k:
            ctx.nontriv(k)
    vlib.replay_parallel(ctx, behs, replay_chunk, on_result(ctx, "bfs"), "bfs")
    vlib.replay_parallel(ctx, sb, replay_chunk, on_result(ctx, "simulation"), "simulation")
    # grid expansion (spec/MetaExpand.tla): the grown grids, also across a restart into the originally configured grid
    rx = vlib.tlc("MCMetaExpand", "MCMetaExpand_mc.cfg", workers=16, timeout=1800)
    ctx.add_tlc(rx, "MCMetaExpand properties")
    if rx.violation:
        ctx.violation("model:expand:" + rx.violation, "design-level invariant %s violated in spec/MetaExpand.tla" % rx.violation, {"tlc": vlib.counterexample(rx)})
    gx = vlib.tlc("MCMetaExpand", "MCMetaExpand_gen.cfg", workers=16, timeout=900)
    ctx.add_tlc(gx, "MCMetaExpand generation (BFS)")
    bx = list(gx.beh)
    random.Random(ctx.seed + 14).shuffle(bx)
    bx = bx[:(3000 if quick else 60000)]
    for b in bx:
        if any(a["lo"] < 0 for a in b["acts"]) and b["acts"][-1]["e"] > 0:
            ctx.nontriv(json.dumps(["expand", b["p"], [(a["a"], a["x"]) for a in b["acts"]]], sort_keys=True))
    vlib.replay_parallel(ctx, bx, replay_chunk, on_result(ctx, "grid expansion"), "grid expansion")
    ev = record_traces(ctx, 40 if quick else 500, 12, 6)
    ctx.sample({"trace_excerpt": ev[:4]})
    r = vlib.validate_trace(ctx, "MetaTrace", "MetaTrace.cfg", ev, "random-driver")
    if r is not None:
        for m in set(re.findall(r'"QUIRK", "([\w-]+)"', r.out)):
            ctx.violation(m, KNOWN.get(m, m) + " (recorded execution)", {"note": "named deviation needed to accept a recorded execution"})


def replay(ctx, path):
    j = json.load(open(path))
    beh = j["payload"].get("behaviour")
    if beh:
        vlib.replay_parallel(ctx, [beh], replay_chunk, on_result(ctx, "replay"), "replay")
