"""C07: total-force measurement is the inverse of force application.
spec/TotalForce.tla (closed engine loop), MCTotalForce, TotalForceTrace: executions of the real code in a closed loop
(the engine delivers (1+lam) times exactly the atomic forces Colvars applied, plus noise on outsiders) for a menu of
components are validated event by event."""
import json, os, re, random, math
import vlib
from vlib import close

D = 40      # lattice of forces: multiples of 1/40 (Jacobian terms 2kT/r with r in {1,2,4,5})

COMPS = {
    "distance": "distance {\n group1 { atomNumbers 1 2 }\n group2 { atomNumbers 3 4 }\n%s }\n",
    "distanceZ": "distanceZ {\n main { atomNumbers 1 2 }\n ref { atomNumbers 3 4 }\n axis (1, 2, 2)\n%s }\n",
    "distanceZ-ref2": "distanceZ {\n main { atomNumbers 1 2 }\n ref { atomNumbers 3 4 }\n ref2 { atomNumbers 5 6 }\n%s }\n",
    "distanceXY": "distanceXY {\n main { atomNumbers 1 2 }\n ref { atomNumbers 3 4 }\n axis (0, 0, 1)\n%s }\n",
    "angle": "angle {\n group1 { atomNumbers 1 }\n group2 { atomNumbers 2 3 }\n group3 { atomNumbers 4 }\n%s }\n",
    "dihedral": "dihedral {\n group1 { atomNumbers 1 }\n group2 { atomNumbers 2 }\n group3 { atomNumbers 3 }\n group4 { atomNumbers 4 5 }\n%s }\n",
    "gyration": "gyration {\n atoms { atomNumbers 1 2 3 4 5 }\n%s }\n",
    "rmsd": "rmsd {\n atoms { atomNumbers 1 2 3 4 }\n refPositions (0.0, 0.0, 0.0) (2.0, 0.0, 0.5) (0.0, 2.5, 0.0) (1.0, 1.0, 3.0)\n%s }\n",
    "eigenvector": "eigenvector {\n atoms { atomNumbers 1 2 3 4 }\n refPositions (0.0, 0.0, 0.0) (2.0, 0.0, 0.5) (0.0, 2.5, 0.0) (1.0, 1.0, 3.0)\n vector (0.5, 0.0, -0.5) (0.0, 1.0, 0.0) (-0.5, 0.0, 0.5) (0.0, -1.0, 0.0)\n%s }\n",
}
ONESITE = {"distance", "distanceZ", "distanceXY", "angle", "dihedral"}


def build_config(rng, comp, p):
    opt = ""
    if comp in ONESITE and rng.random() < 0.4:
        opt = " oneSiteTotalForce on\n"
    body = COMPS[comp] % opt
    combo = comp == "distance" and rng.random() < 0.3
    if combo:
        # difference of two distances on disjoint atoms: coefficients +1 / -1
        body = (COMPS["distance"] % (opt + " componentCoeff 1.0\n")) + \
            "distance {\n group1 { atomNumbers 5 }\n group2 { atomNumbers 6 7 }\n componentCoeff -1.0\n }\n"
    cv = "colvar {\n name q\n%s%s}\n" % ("  subtractAppliedForce on\n" if p["subtract"] else "", body)
    # a second variable on other atoms, so that forces on outsiders exist in the engine arrays
    cv += "colvar {\n name outsider\n distance {\n group1 { atomNumbers 9 }\n group2 { atomNumbers 10 }\n }\n}\n"
    # the variable force comes from the scripted-force task (any integer, any variable type)
    return "scriptedColvarForces on\n" + cv, combo


def positions(rng, comp, T, masses=None):
    for attempt in range(200):
        P = _positions(rng, comp, T)
        if masses is None or T > 0:
            return P
        # stay away from the singular geometry of distanceXY / distance: mass-weighted centres of atoms (1,2) and (3,4) apart in the xy plane
        ca = [(masses[0] * P[0][i] + masses[1] * P[1][i]) / (masses[0] + masses[1]) for i in range(3)]
        cb = [(masses[2] * P[2][i] + masses[3] * P[3][i]) / (masses[2] + masses[3]) for i in range(3)]
        if (ca[0] - cb[0]) ** 2 + (ca[1] - cb[1]) ** 2 > 0.25:
            return P
    return P


def _positions(rng, comp, T):
    if comp == "distance" and T > 0:
        # centres of the two groups at a Pythagorean distance
        v = rng.choice([(1, 0, 0), (0, 2, 0), (0, 0, 4), (3, 4, 0), (0, -3, 4), (2, 0, 0)])
        base = [rng.randint(-2, 2) for _ in range(3)]
        a = [base, base]
        b = [[base[i] + v[i] for i in range(3)]] * 2
        P = [list(map(float, a[0])), list(map(float, a[1])), list(map(float, b[0])), list(map(float, b[1]))]
    else:
        P = []
        while len(P) < 4:
            c = [rng.randint(-6, 6) / 2.0 for _ in range(3)]
            if all(sum((c[i] - q[i]) ** 2 for i in range(3)) > 1.0 for q in P):
                P.append(c)
    while len(P) < 12:
        c = [rng.randint(-6, 6) / 2.0 + 7.0 * (len(P) % 2) for _ in range(3)]
        if all(sum((c[i] - q[i]) ** 2 for i in range(3)) > 1.0 for q in P):
            P.append(c)
    return P


def record(ctx, nruns, nsteps):
    rng = random.Random(ctx.seed + 707)
    events = []
    d = vlib.Drv()
    samples = 0
    try:
        for ri in range(nruns):
            comp = rng.choice(sorted(COMPS))
            p = {"sameStep": rng.random() < 0.35, "subtract": rng.random() < 0.4}
            T = 1.0 if (comp == "distance" and rng.random() < 0.5) else 0.0
            cfg, combo = build_config(rng, comp, p)
            if combo:
                T = 0.0
            masses = [float(rng.choice([1, 2, 3, 12])) for _ in range(12)]
            d.cmd(op="new", natoms=12, sameStep=p["sameStep"], masses=masses, kB=1.0, T=T)
            r = d.cmd(op="config", text=cfg)
            if r.get("rc") != 0:
                raise vlib.MachineryError("C07 config rejected (%s): %s" % (comp, r.get("errtext")))
            r = d.cmd(op="script", args=["cv", "colvar", "q", "set", "total_force", "1"])
            r2 = d.cmd(op="script", args=["cv", "colvar", "q", "get", "total_force"])
            if r2.get("res") != "1":
                raise vlib.MachineryError("C07: could not enable total_force for %s: %s %s" % (comp, r, r2))
            actual = rng.random() < 0.5
            events.append({"e": "Reset", "p": p, "comp": comp, "T": T, "actual": actual})
            first = True
            for k in range(nsteps):
                lam = rng.choice([0, 0, 1, -2])
                fv = {"q": float(rng.choice([-3, -1, 0, 2, 5]))}
                P = positions(rng, comp, T, masses)
                noise = [[0.0, 0.0, 0.0]] * 8 + [[rng.choice([-3.0, 5.0]), 1.0, -2.0]] * 4      # forces on outsiders only
                jn = 0
                if T > 0:
                    rr = math.sqrt(sum((P[2][i] - P[0][i]) ** 2 for i in range(3)))
                    jn = vlib.lat(2.0 / rr, D)
                if not p["sameStep"]:
                    r = d.cmd(op="step", pos=P, sys=noise, lam=float(lam), cvforce=fv, actual=actual)
                    if r.get("op") != "step":
                        ctx.violation("crash", "implementation died in the closed loop (%s)" % comp, {"cfg": cfg})
                        d = vlib.Drv()
                        break
                    if r["cvs"]["q"].get("ft", [0.0])[0] is None or r["cvs"]["q"]["fa"][0] is None:
                        # not-a-number at a singular geometry of the component (collinear arms, coincident centres): end this run here
                        ctx.extra["singular_geometries_skipped"] = ctx.extra.get("singular_geometries_skipped", 0) + 1
                        break
                    ev = {"e": "First" if first else "Step", "fa": vlib.lat(r["cvs"]["q"]["fa"][0], D), "lam": lam, "j": jn,
                          "ft": vlib.lat(r["cvs"]["q"].get("ft", [0.0])[0], D)}
                else:
                    r0 = d.cmd(op="step", pos=P, sys=noise, cvforce=fv, actual=actual)
                    if r0.get("op") != "step":
                        break
                    fat = r0["fat"]
                    sysf = [[(1 + lam) * c for c in fat.get(str(i), [0, 0, 0])] for i in range(8)] + noise[8:]
                    r = d.cmd(op="step", pos=P, sys=sysf, newrun=True, cvforce=fv, actual=actual)
                    if r.get("op") != "step" or r["cvs"]["q"].get("ft", [0.0])[0] is None or r0["cvs"]["q"]["fa"][0] is None:
                        ctx.extra["singular_geometries_skipped"] = ctx.extra.get("singular_geometries_skipped", 0) + 1
                        break
                    ev = {"e": "Present", "fa": vlib.lat(r0["cvs"]["q"]["fa"][0], D), "lam": lam, "j": jn,
                          "ft": vlib.lat(r["cvs"]["q"].get("ft", [0.0])[0], D)}
                first = False
                ev["comp"] = comp
                events.append(ev)
                if samples < 3 and k == 2:
                    ctx.sample({"component": comp, "params": p, "T": T, "event": ev})
                    samples += 1
                if lam != 0 or p["subtract"]:
                    ctx.nontriv([ri, k])
            d.cmd(op="destroy")
    finally:
        d.close()
    return events


def run(ctx):
    ctx.rule = ("closed-loop executions of the real code: component in {distance, distanceZ (fixed axis and moving axis ref-ref2), distanceXY, angle, dihedral, gyration, rmsd, eigenvector, +1/-1 combination of two distances}, "
                "random masses and lattice geometries changing every step, oneSiteTotalForce, both force-timing conventions, subtractAppliedForce, engine multiplier lam in {0,1,-2}, noise on outsiders, "
                "T = 0 (all) and kT = 1 (distance at Pythagorean separations); non-trivial = lam != 0 or subtractAppliedForce; distinct by (run, step)")
    ctx.assumptions = [
        "the variable force is produced by the scripted-force task (integer values), so the expected total force is an exact multiple of 1/40 whatever the geometry",
        "Jacobian term: checked exactly only for the distance component (2kT/r); for the other components the closed loop is run at T = 0 where the term is absent",
        "alchemical component and rotated frames are not covered by this check",
    ]
    vlib.build()
    quick = ctx.quick()
    r = vlib.tlc("MCTotalForce", "MCTotalForce.cfg", workers=8, timeout=900)
    ctx.add_tlc(r, "TotalForce model")
    if r.violation:
        ctx.violation("model:" + r.violation, "TotalForce.tla violates %s" % r.violation, {"tlc": vlib.counterexample(r)})
        return
    ev = record(ctx, 60 if quick else 800, 8)
    tr = vlib.validate_trace(ctx, "TotalForceTrace", "TotalForceTrace.cfg", ev, "closed loop")
    if tr is not None and '"DEV"' in tr.out:
        ctx.violation("zero-total-subtract", "subtractAppliedForce: a delivered total force that is exactly zero is not corrected for the previously applied force (recorded execution needs the named deviation)", {})


def replay(ctx, path):
    run(ctx)
