"""C16: PMF integration solves the stated discrete problem; incremental equals batch.
spec/Integrate.tla: gradient grid (sums, counts), divergence kept up to date incrementally vs recomputed from scratch,
the symmetric finite-volume Laplacian, the 1-D cumulative sum.  TLC checks incremental = batch for every arrival order and
multiplicity up to the bound on 2-D/3-D shapes with every periodicity pattern, solvability, symmetry and null space of
the Laplacian, and prints behaviours, matrices and 1-D surfaces; all are replayed into the real integrate_potential
(protected members reached through a subclass) and through a 2-D ABF run whose written .pmf must solve the final gradients."""
import json, os, random, shutil
import vlib

TOL = 1e-10


def write_grad_file(path, p, grad):
    """Multicolumn gradient file for shape p; grad maps bin tuple -> vector (missing = zeros)."""
    nd = len(p["n"])
    lines = ["# %d" % nd]
    for i in range(nd):
        lines.append("# %r %r %d %d" % (0.0, float(p["w"][i]), p["n"][i], 1 if p["per"][i] else 0))
    lines.append("")

    def rec(prefix):
        i = len(prefix)
        if i == nd:
            g = grad.get(tuple(prefix), [0.0] * nd)
            lines.append(" ".join("%r" % ((prefix[k] + 0.5) * p["w"][k]) for k in range(nd)) + " " + " ".join("%r" % float(x) for x in g))
            return
        for x in range(p["n"][i]):
            rec(prefix + [x])
            if i == nd - 2:
                lines.append("")
    rec([])
    open(path, "w").write("\n".join(lines) + "\n")


def npts(p):
    return [n if per else n + 1 for n, per in zip(p["n"], p["per"])]


def lin(pt, N):
    k = 0
    for x, n in zip(pt, N):
        k = k * n + x
    return k


def replay_chunk(args):
    behs, seed, wd = args
    out = []
    os.makedirs(wd, exist_ok=True)
    d = vlib.Drv(cwd=wd)
    try:
        d.cmd(op="new", natoms=4)
        for bi, b in enumerate(behs):
            p = b["p"]
            N = npts(p)
            f = os.path.join(wd, "g%d_%d.grad" % (seed, bi))
            write_grad_file(f, p, {})
            r = d.cmd(op="ipnew", file=f, setdiv=True)
            os.remove(f)
            if r.get("rc") != 0 or r.get("nx") != N:
                out.append(("machinery", "ipnew failed or grid shape %s differs from %s: %s" % (r.get("nx"), N, r), None))
                continue
            sums = {}
            for h in b["hist"]:
                k = tuple(h["b"])
                s, c = sums.get(k, ([0] * len(h["v"]), 0))
                s = [x + y for x, y in zip(s, h["v"])]
                sums[k] = (s, c + 1)
                d.cmd(op="ipset", ix=list(k), v=[x / float(c + 1) for x in s])
            inc = d.cmd(op="ipdiv")["div"]
            bat = d.cmd(op="ipdiv", batch=True)["div"]
            want = [0.0] * len(inc)
            for e in b["div"]:
                want[lin(e["pt"], N)] = e["v"] / float(b["ds"])
            bad = None
            for k in range(len(want)):
                if abs(inc[k] - want[k]) > TOL:
                    bad = ("incremental", "shape %s arrivals %s: incremental divergence[%d] = %r, specification %r (batch %r)" % (json.dumps(p), json.dumps(b["hist"]), k, inc[k], want[k], bat[k]))
                    break
                if abs(bat[k] - want[k]) > TOL:
                    bad = ("batch", "shape %s arrivals %s: divergence from scratch [%d] = %r, specification %r" % (json.dumps(p), json.dumps(b["hist"]), k, bat[k], want[k]))
                    break
            if bad is None and any(abs(x) > 0 for x in want):
                s = d.cmd(op="ipsolve", tol=1e-10, itmax=20000)
                res = max(abs(x - y) for x, y in zip(s["lap"], s["div"]))
                nrm = max(abs(x) for x in s["div"])
                if not (res <= 1e-6 * nrm):
                    bad = ("residual", "shape %s arrivals %s: |Lap(pmf) - div| = %r (|div| = %r) after %d iterations" % (json.dumps(p), json.dumps(b["hist"]), res, nrm, s["iter"]))
            out.append(("ok", None, None) if bad is None else ("mismatch", {"key": bad[0], "what": bad[1]}, b))
    finally:
        d.close()
    return out


def check_laplacian(ctx, d, wd, b):
    p = b["p"]
    N = npts(p)
    nd = len(N)
    f = os.path.join(wd, "lap.grad")
    write_grad_file(f, p, {})
    r = d.cmd(op="ipnew", file=f, setdiv=True)
    if r.get("rc") != 0:
        raise vlib.MachineryError("ipnew: %s" % r)
    cols = d.cmd(op="iplap")["cols"]
    wprod = 1
    for w in p["w"]:
        wprod *= w
    scale = float(2 ** (nd - 1) * wprod * wprod)
    want = [[0.0] * len(cols) for _ in cols]
    for e in b["lap"]:
        want[lin(e["q"], N)][lin(e["r"], N)] = e["v"] / scale
    for q in range(len(cols)):
        for rr in range(len(cols)):
            ctx.evaluations += 1
            if abs(cols[q][rr] - want[q][rr]) > 1e-12:
                ctx.violation("laplacian", "shape %s: the real operator applied to the unit vector at %d gives %r at %d, the specification's matrix %r" % (json.dumps(p), q, cols[q][rr], rr, want[q][rr]),
                              {"shape": p, "q": q, "r": rr})
                return
    ctx.nontriv(["lap", p])


def check_1d(ctx, d, wd, cases):
    for c in cases:
        n = len(c["g"])
        p = {"n": [n], "per": [c["per"]], "w": [c["w"]]}
        f = os.path.join(wd, "one.grad")
        write_grad_file(f, p, {(i,): [float(c["g"][i])] for i in range(n)})
        r = d.cmd(op="ipnew", file=f)
        if r.get("rc") != 0:
            raise vlib.MachineryError("ipnew 1-D: %s" % r)
        s = d.cmd(op="ipsolve")
        want = [x / float(n) for x in c["f"]]
        got = s["data"][:len(want)]
        ctx.evaluations += 1
        ctx.traces += 1
        if len(s["data"]) != len(want) or any(abs(x - y) > 1e-12 for x, y in zip(got, want)):
            ctx.violation("pmf1d", "gradients %s width %d periodic %s: surface %r, specification %r" % (c["g"], c["w"], c["per"], s["data"], want), {"case": c})
            return
        if any(c["g"]):
            ctx.nontriv(["1d", c["g"], c["per"], c["w"]])


ABF_CV = """colvar {
  name z%d
  width %r
  lowerBoundary 0.0
  upperBoundary %r
  distanceZ {
    main { atomNumbers %d }
    ref { dummyAtom (0,0,0) }
    axis (0,0,1)
    oneSiteTotalForce on
%s  }
}
"""


def abf_case(args):
    """A 2-D/3-D ABF run fed the arrivals of a behaviour under the one-step-late convention; the written .pmf must solve the final gradients."""
    behs, seed, wd = args
    out = []
    for bi, b in enumerate(behs):
        p = b["p"]
        nd = len(p["n"])
        w = os.path.join(wd, "abf%d_%d" % (seed, bi))
        os.makedirs(w, exist_ok=True)
        cfg = ""
        for i in range(nd):
            extra = ("    period %r\n    wrapAround %r\n" % (float(p["n"][i] * p["w"][i]), p["n"][i] * p["w"][i] / 2.0)) if p["per"][i] else ""
            cfg += ABF_CV % (i + 1, float(p["w"][i]), float(p["n"][i] * p["w"][i]), i + 1, extra)
        cfg += "abf {\n  name a\n  colvars %s\n  fullSamples 1000\n}\n" % " ".join("z%d" % (i + 1) for i in range(nd))
        d = vlib.Drv(cwd=w)
        try:
            d.cmd(op="new", natoms=4, prefix="o")
            r = d.cmd(op="config", text=cfg)
            if r.get("rc") != 0:
                out.append(("machinery", "ABF configuration rejected: %s" % r.get("errtext"), None))
                continue
            hist = b["hist"]
            # step k presents the position of arrival k and delivers the force of arrival k-1 (one step late)
            for k in range(len(hist) + 1):
                h = hist[min(k, len(hist) - 1)]
                pos = [[0, 0, (h["b"][i] + 0.5) * p["w"][i]] if i < nd else [0, 0, 0] for i in range(4)]
                prev = hist[k - 1]["v"] if k > 0 else [0] * nd
                sysf = [[0, 0, float(prev[i])] if i < nd else [0, 0, 0] for i in range(4)]
                d.cmd(op="step", pos=pos, sys=sysf)
            d.cmd(op="postrun")
            pmf = read_cols(os.path.join(w, "o.pmf"))
            r = d.cmd(op="ipnew", file="o.grad", setdiv=True)
            if r.get("rc") != 0 or pmf is None:
                out.append(("machinery", "no .pmf/.grad written: %s" % r, None))
                continue
            s = d.cmd(op="ipsolve", tol=1e-8, itmax=20000)
            ref = s["data"]
            if len(ref) != len(pmf):
                out.append(("mismatch", {"key": "abf-pmf", "what": "written .pmf has %d points, the integrator %d" % (len(pmf), len(ref))}, b))
                continue
            if any(x is None or x != x for x in ref) or any(x != x for x in pmf):
                out.append(("mismatch", {"key": "abf-nan", "what": "shape %s arrivals %s: not-a-number in the integrated surface (written %s, recomputed %s)" % (json.dumps(p), json.dumps(b["hist"]), pmf[:4], ref[:4])}, b))
                continue
            m1, m2 = min(pmf), min(ref)
            dev = max(abs((x - m1) - (y - m2)) for x, y in zip(pmf, ref))
            scale = max(1.0, max(abs(y - m2) for y in ref))
            if dev > 1e-4 * scale:
                out.append(("mismatch", {"key": "abf-pmf", "what": "shape %s arrivals %s: the .pmf written by ABF (divergence updated on the fly) differs by %r from the solution for the final gradients" % (
                    json.dumps(p), json.dumps(hist), dev)}, b))
            else:
                out.append(("ok", None, None))
        finally:
            d.close()
            shutil.rmtree(w, ignore_errors=True)
    return out


def read_cols(path):
    if not os.path.exists(path):
        return None
    vals = []
    for line in open(path):
        if line.startswith("#") or not line.strip():
            continue
        vals.append(float(line.split()[-1]))
    return vals


def ds_of(p):
    w = 1
    for x in p["w"]:
        w *= x
    return 12 * (2 if len(p["n"]) == 2 else 4) * w


def all_points(N):
    pts = [[]]
    for n in N:
        pts = [q + [x] for q in pts for x in range(n)]
    return pts


def record_and_validate(ctx, hists, wd):
    """Random arrival histories executed by the real integrator, the divergence read after every arrival; TLC validates."""
    events = []
    d = vlib.Drv(cwd=wd)
    try:
        d.cmd(op="new", natoms=4)
        for b in hists:
            p = b["p"]
            N = npts(p)
            pts = all_points(N)
            DS = ds_of(p)
            f = os.path.join(wd, "rec.grad")
            write_grad_file(f, p, {})
            r = d.cmd(op="ipnew", file=f, setdiv=True)
            if r.get("rc") != 0:
                raise vlib.MachineryError("ipnew: %s" % r)
            events.append({"e": "Reset", "p": p})
            sums = {}
            for h in b["hist"]:
                k = tuple(h["b"])
                sm, c = sums.get(k, ([0] * len(h["v"]), 0))
                sm = [x + y for x, y in zip(sm, h["v"])]
                sums[k] = (sm, c + 1)
                d.cmd(op="ipset", ix=list(k), v=[x / float(c + 1) for x in sm])
                dv = d.cmd(op="ipdiv")["div"]
                logged = []
                for pt in pts:
                    x = dv[lin(pt, N)] * DS
                    if abs(x - round(x)) > 1e-7:
                        logged.append({"pt": pt, "v": "offlattice %r" % x})
                    elif round(x) != 0:
                        logged.append({"pt": pt, "v": int(round(x))})
                events.append({"e": "Arrive", "b": h["b"], "v": h["v"], "div": logged})
            ctx.nontriv([p, b["hist"]])
    finally:
        d.close()
    vlib.validate_trace(ctx, "IntegrateTrace", "IntegrateTrace.cfg", events, "recorded arrival histories", nexec=len(hists), key="trace-rejected")


def degenerate(p):
    return any(per and n == 1 for n, per in zip(p["n"], p["per"]))


def abf_commands(p, hist):
    nd = len(p["n"])
    cfg = ""
    for i in range(nd):
        extra = ("    period %r\n    wrapAround %r\n" % (float(p["n"][i] * p["w"][i]), p["n"][i] * p["w"][i] / 2.0)) if p["per"][i] else ""
        cfg += ABF_CV % (i + 1, float(p["w"][i]), float(p["n"][i] * p["w"][i]), i + 1, extra)
    cfg += "abf {\n  name a\n  colvars %s\n  fullSamples 1000\n}\n" % " ".join("z%d" % (i + 1) for i in range(nd))
    cmds = [{"op": "new", "natoms": 4, "prefix": "o"}, {"op": "config", "text": cfg}]
    for k in range(len(hist) + 1):
        h = hist[min(k, len(hist) - 1)]
        pos = [[0, 0, (h["b"][i] + 0.5) * p["w"][i]] if i < nd else [0, 0, 0] for i in range(4)]
        prev = hist[k - 1]["v"] if k > 0 else [0] * nd
        cmds.append({"op": "step", "pos": pos, "sys": [[0, 0, float(prev[i])] if i < nd else [0, 0, 0] for i in range(4)]})
    cmds.append({"op": "postrun"})
    return cmds


def memcheck_degenerate(ctx, wd, shapes):
    """A periodic dimension with a single bin: the run is observed under valgrind (plain build), because an out-of-bounds
    read has no deterministic symptom otherwise."""
    import subprocess
    exe = os.path.join(vlib.build("plain"), "simdrv")
    for p in shapes:
        nd = len(p["n"])
        hist = [{"b": [0] * nd, "v": [1] * nd}, {"b": [n - 1 for n in p["n"]], "v": [3] * nd}, {"b": [0] * nd, "v": [-2] * nd}]
        w = os.path.join(wd, "vg")
        shutil.rmtree(w, ignore_errors=True)
        os.makedirs(w)
        open(os.path.join(w, "in.ndjson"), "w").write("\n".join(json.dumps(c) for c in abf_commands(p, hist)) + "\n")
        with open(os.path.join(w, "in.ndjson")) as fin:
            subprocess.run(["valgrind", "-q", "--log-file=vg.log", exe], cwd=w, stdin=fin, stdout=subprocess.DEVNULL, stderr=subprocess.DEVNULL, timeout=600)
        log = open(os.path.join(w, "vg.log")).read() if os.path.exists(os.path.join(w, "vg.log")) else ""
        ctx.evaluations += 1
        blocks = [b for b in log.split("== \n") if "Invalid read" in b or "Invalid write" in b]
        if blocks:
            where = "integrate_potential::atimes" if any("integrate_potential::atimes" in b for b in blocks) else "elsewhere"
            key = "oob:one-bin-periodic-dimension" if where != "elsewhere" else "oob:other"
            ctx.violation(key, "shape %s (a periodic dimension with one bin): ABF with integration reads outside an array in %s: %s" % (json.dumps(p), where, " ".join(blocks[0].split())[:300]), {"shape": p})
        shutil.rmtree(w, ignore_errors=True)


def run(ctx):
    ctx.rule = ("behaviours = sequences of (bin, sample vector) arrivals on 5 (11 thorough) grid shapes - 2-D and 3-D, every mix of periodic and non-periodic dimensions, widths 1 and 2 - with up to 4 samples per bin; "
                "non-trivial = a behaviour whose final divergence is not identically zero, a Laplacian matrix, or a 1-D gradient sequence that is not all zero")
    ctx.assumptions = [
        "the gradient grid of the stand-alone integrator holds bin means set by the harness (sum/count computed in double precision); divergences are compared with the exact rationals to 1e-10",
        "the solver is checked through its residual with the operator that was itself compared column by column with the specification's matrix; convergence to a smooth surface at second order is not decided",
        "smoothed gradients (b_smoothed) are not exercised",
    ]
    vlib.build()
    quick = ctx.quick()
    r = vlib.tlc("MCIntegrate", "MCIntegrate.cfg" if quick else "MCIntegrate_thorough.cfg", workers=16, timeout=7000, xmx="24g")
    ctx.add_tlc(r, "MCIntegrate properties")
    if r.violation:
        ctx.violation("model:" + r.violation, "Integrate.tla violates %s" % r.violation, {"tlc": vlib.counterexample(r)})
        return
    lap = vlib.tlc("MCIntegrate", "MCIntegrate_lap.cfg", workers=4, timeout=900)
    ctx.add_tlc(lap, "MCIntegrate Laplacian matrices")
    one = vlib.tlc("MCIntegrate1D", "MCIntegrate1D.cfg", workers=4, timeout=900)
    ctx.add_tlc(one, "MCIntegrate1D")
    g = vlib.tlc("MCIntegrate", "MCIntegrate_gen.cfg", workers=16, timeout=1800)
    ctx.add_tlc(g, "MCIntegrate generation (BFS)")
    if lap.violation or one.violation:
        v = lap.violation or one.violation
        ctx.violation("model:" + v, "specification violates %s" % v, {})
        return
    behs = g.beh
    rng = random.Random(ctx.seed)
    rng.shuffle(behs)
    if quick:
        behs = behs[:3000]
    shapes = [b["p"] for b in lap.beh]
    degen = [p for p in shapes if degenerate(p)]
    shapes = [p for p in shapes if not degenerate(p)]
    behs = [b for b in behs if not degenerate(b["p"])]
    sb = []
    for k in range(60 if quick else 1200):
        p = shapes[k % len(shapes)]
        cnt, hist = {}, []
        for _ in range(rng.randint(6, 14)):
            bn = tuple(rng.randrange(n) for n in p["n"])
            if cnt.get(bn, 0) >= 4:
                continue
            cnt[bn] = cnt.get(bn, 0) + 1
            hist.append({"b": list(bn), "v": [rng.choice([-2, 1, 3]) for _ in p["n"]]})
        sb.append({"p": p, "hist": hist, "div": [], "ds": 0})
    for b in behs[:1] + sb[:1]:
        ctx.sample({"p": b["p"], "hist": b["hist"], "div": b["div"][:4]})
    for b in behs + sb:
        if any(e["v"] != 0 for e in b["div"]):
            ctx.nontriv([b["p"], b["hist"]])
    wd = os.path.join(ctx.workdir, "ip")
    os.makedirs(wd, exist_ok=True)
    d = vlib.Drv(cwd=wd)
    try:
        d.cmd(op="new", natoms=4)
        for b in lap.beh:
            if not degenerate(b["p"]):
                check_laplacian(ctx, d, wd, b)
        check_1d(ctx, d, wd, one.beh)
    finally:
        d.close()

    def on(status, info, b):
        ctx.violation(info["key"], info["what"], {"behaviour": b})
    record_and_validate(ctx, sb, wd)
    allb = behs
    chunks = [(allb[i::16], i, os.path.join(wd, "c%d" % i)) for i in range(16) if allb[i::16]]
    for chunk in vlib.parallel_map(replay_chunk, chunks, 16):
        for status, info, b in chunk:
            ctx.evaluations += 1
            ctx.traces += 1
            if status == "machinery":
                raise vlib.MachineryError(str(info))
            if status != "ok":
                on(status, info, b)
    abf = [b for b in sb if len(b["hist"]) >= 4][:(120 if quick else 1500)]
    chunks = [(abf[i::16], i, os.path.join(wd, "a%d" % i)) for i in range(16) if abf[i::16]]
    nabf = 0
    for chunk in vlib.parallel_map(abf_case, chunks, 16):
        for status, info, b in chunk:
            ctx.evaluations += 1
            ctx.traces += 1
            nabf += 1
            if status == "machinery":
                raise vlib.MachineryError(str(info))
            if status != "ok":
                on(status, info, b)
    memcheck_degenerate(ctx, wd, degen)
    vlib.log("replayed %d behaviours into the integrator and %d through ABF" % (len(allb), nabf))


def replay(ctx, path):
    j = json.load(open(path))
    b = j["payload"].get("behaviour")
    if b:
        vlib.build()
        wd = os.path.join(ctx.workdir, "rp")
        for fn in (replay_chunk, abf_case):
            for status, info, bb in fn(([b], 0, wd)):
                if status == "mismatch":
                    ctx.violation(info["key"], info["what"], {"behaviour": b})
