"""C02: variable values equal their mathematical definition and respect its symmetries.
spec/Values.tla: exact integer definitions of centre-of-mass distances, projections, gyration, angle, dihedral,
coordination number and minimum-image distance on lattice geometries, with invariance under the 24 proper cube rotations,
integer translations, whole-cell translations of a group and relisting/duplicating atoms checked by TLC; every case is
evaluated by the real code.  Rigidly moved copies of reference positions must give rmsd 0 and the applied rotation
(up to the quaternion's sign); recorded optimal-rotation deviations are validated against competing rotations (OptRotTrace)."""
import json, math, os, random
import vlib
from vlib import close

R0SQ = 7.0      # cutoff^2 of the coordination number: 7 is not a sum of three squares, so no pair sits on the cutoff


def listing(atoms, mode):
    a = list(atoms)
    if mode == "reversed":
        a = a[::-1]
    elif mode == "duplicate":
        a = a[::-1] + [a[-1]]
    return " ".join(str(x) for x in a)


def config(mode, ref):
    A, B, ALL = listing([1, 2], mode), listing([3, 4], mode), listing([1, 2, 3, 4], mode)
    refp = " ".join("(%r, %r, %r)" % tuple(float(x) for x in p) for p in ref)
    cv = lambda name, body: "colvar {\n  name %s\n  %s\n}\n" % (name, body)
    t = cv("d", "distance {\n    group1 { atomNumbers %s }\n    group2 { atomNumbers %s }\n  }" % (A, B))
    t += cv("dz", "distanceZ {\n    main { atomNumbers %s }\n    ref { atomNumbers %s }\n    axis (0, 0, 1)\n  }" % (A, B))
    t += cv("dxy", "distanceXY {\n    main { atomNumbers %s }\n    ref { atomNumbers %s }\n    axis (0, 0, 1)\n  }" % (A, B))
    t += cv("gyr", "gyration {\n    atoms { atomNumbers %s }\n  }" % ALL)
    t += cv("ang", "angle {\n    group1 { atomNumbers 1 }\n    group2 { atomNumbers 2 }\n    group3 { atomNumbers 3 }\n  }")
    t += cv("dih", "dihedral {\n    group1 { atomNumbers 1 }\n    group2 { atomNumbers 2 }\n    group3 { atomNumbers 3 }\n    group4 { atomNumbers 4 }\n  }")
    t += cv("cn", "coordNum {\n    group1 { atomNumbers %s }\n    group2 { atomNumbers %s }\n    cutoff %r\n    expNumer 2\n    expDenom 4\n  }" % (A, B, math.sqrt(R0SQ)))
    t += cv("rmsd", "rmsd {\n    atoms { atomNumbers %s }\n    refPositions %s\n  }" % (listing([1, 2, 3, 4], "plain"), refp))
    t += cv("ori", "orientation {\n    atoms { atomNumbers 1 2 3 4 }\n    refPositions %s\n  }" % refp)
    t += cv("oang", "orientationAngle {\n    atoms { atomNumbers 1 2 3 4 }\n    refPositions %s\n  }" % refp)
    return t


def rot_matrix(rot):
    M = [[0] * 3 for _ in range(3)]
    for i in range(3):
        M[i][rot["p"][i] - 1] = rot["s"][i]
    return M


def quat_of(M):
    """Unit quaternion (q0, q1, q2, q3) of a proper rotation matrix (standard conversion)."""
    tr = M[0][0] + M[1][1] + M[2][2]
    if tr > 0:
        s = math.sqrt(tr + 1.0) * 2
        q = [0.25 * s, (M[2][1] - M[1][2]) / s, (M[0][2] - M[2][0]) / s, (M[1][0] - M[0][1]) / s]
    elif M[0][0] >= M[1][1] and M[0][0] >= M[2][2]:
        s = math.sqrt(1.0 + M[0][0] - M[1][1] - M[2][2]) * 2
        q = [(M[2][1] - M[1][2]) / s, 0.25 * s, (M[0][1] + M[1][0]) / s, (M[0][2] + M[2][0]) / s]
    elif M[1][1] >= M[2][2]:
        s = math.sqrt(1.0 + M[1][1] - M[0][0] - M[2][2]) * 2
        q = [(M[0][2] - M[2][0]) / s, (M[0][1] + M[1][0]) / s, 0.25 * s, (M[1][2] + M[2][1]) / s]
    else:
        s = math.sqrt(1.0 + M[2][2] - M[0][0] - M[1][1]) * 2
        q = [(M[1][0] - M[0][1]) / s, (M[0][2] + M[2][0]) / s, (M[1][2] + M[2][1]) / s, 0.25 * s]
    return q


def expected(c):
    v = c["vals"]
    mm = float(c["ma"] * c["mb"])
    e = {"d": math.sqrt(v["d2"]) / mm, "dz": v["dz"] / mm, "dxy": math.sqrt(v["dxy2"]) / mm,
         "gyr": math.sqrt(v["gyr"] / 16.0 / 4.0)}
    a = v["ang"]
    e["ang"] = math.degrees(math.acos(max(-1.0, min(1.0, a["uv"] / math.sqrt(a["uu"] * a["vv"]))))) if a["uu"] and a["vv"] else None
    dh = v["dih"]
    e["dih"] = math.degrees(math.atan2(math.sqrt(dh["b2"]) * dh["y0"], dh["x"])) if (dh["x"] or dh["y0"]) else None
    e["cn"] = sum(R0SQ / (R0SQ + d2) for d2 in v["pair"])
    e["min"] = math.sqrt(v["min"]) / mm
    return e


def angdiff(a, b):
    return abs((a - b + 180.0) % 360.0 - 180.0)


def chunk(args):
    cases, seed = args
    out = []
    d = vlib.Drv()
    try:
        last = None
        for c in cases:
            key = json.dumps([c["geo"], c["m"], c["listing"]])
            pos = [[float(x) for x in p] for p in c["pos"]]
            bad = None
            for cell in (None, [float(x) for x in c["cell"]]):
                if cell is None and any(c["shiftB"]):
                    continue        # whole-cell translations only make sense with a cell
                new = {"op": "new", "natoms": 5, "masses": [float(x) for x in c["m"]]}
                if cell:
                    new["cell"] = cell
                d.cmd(**new)
                r = d.cmd(op="config", text=config(c["listing"], c["geo"][:4]))
                if r.get("rc") != 0:
                    out.append(("machinery", "configuration rejected: %s" % r.get("errtext"), None))
                    bad = "skip"
                    break
                r = d.cmd(op="step", pos=pos)
                if r.get("op") != "step":
                    bad = {"key": "crash", "what": "process died"}
                    break
                x = {k: v["x"] for k, v in r["cvs"].items()}
                e = expected(c)
                if cell:
                    if not close(x["d"][0], e["min"], 1e-10):
                        bad = {"key": "minimum-image", "what": "distance under the cell %s = %r, specification %r" % (cell, x["d"][0], e["min"])}
                    continue
                for k in ("d", "dz", "dxy", "gyr", "cn"):
                    if not close(x[k][0], e[k], 1e-10):
                        bad = {"key": "value:" + k, "what": "%s = %r, specification %r" % (k, x[k][0], e[k])}
                        break
                if bad:
                    break
                if e["ang"] is not None and abs(x["ang"][0] - e["ang"]) > 1e-8:
                    bad = {"key": "value:ang", "what": "angle = %r, specification %r" % (x["ang"][0], e["ang"])}
                    break
                if e["dih"] is not None and angdiff(x["dih"][0], e["dih"]) > 1e-8 and abs(abs(e["dih"]) - 180.0) > 1e-6:
                    bad = {"key": "value:dih", "what": "dihedral = %r, specification %r" % (x["dih"][0], e["dih"])}
                    break
                # a rigidly moved copy of the reference: zero deviation, and the rotation that was applied
                if not any(c["shiftB"]):
                    if abs(x["rmsd"][0]) > 1e-6:
                        bad = {"key": "rigid:rmsd", "what": "rmsd of a rigidly moved copy of the reference = %r" % x["rmsd"][0]}
                        break
                    q = quat_of(rot_matrix(c["rot"]))
                    dots = abs(sum(a * b for a, b in zip(q, x["ori"])))
                    if abs(dots - 1.0) > 1e-7:
                        bad = {"key": "rigid:orientation", "what": "orientation %r is not +-%r (the rotation applied to the reference)" % (x["ori"], q)}
                        break
                    want = math.degrees(2 * math.acos(min(1.0, abs(q[0]))))
                    if abs(x["oang"][0] - want) > 1e-5:
                        bad = {"key": "rigid:angle", "what": "orientationAngle %r, the applied rotation has angle %r" % (x["oang"][0], want)}
                        break
            if bad == "skip":
                continue
            out.append(("ok", None, None) if bad is None else ("mismatch", bad, c))
    finally:
        d.close()
    return out


def optimal_events(ctx, geoms, rng, n):
    """Non-congruent configurations: the deviation after the optimal fit must not exceed that of any competing rotation."""
    events = []
    d = vlib.Drv()
    try:
        for k in range(n):
            ref = rng.choice(geoms)[:4]
            pos = [[x + rng.choice([-1, 0, 0, 1]) for x in p] for p in rng.choice(geoms)[:4]] + [[9, 9, 9]]
            d.cmd(op="new", natoms=5)
            r = d.cmd(op="config", text=config("plain", ref))
            if r.get("rc") != 0:
                raise vlib.MachineryError("C02 configuration rejected: %s" % r.get("errtext"))
            r = d.cmd(op="step", pos=[[float(x) for x in p] for p in pos])
            rm = r["cvs"]["rmsd"]["x"][0]
            cr = [sum(p[i] for p in ref) / 4.0 for i in range(3)]
            cp = [sum(p[i] for p in pos[:4]) / 4.0 for i in range(3)]
            cands = []
            # the 24 cube rotations and 40 random rotations as competitors
            mats = []
            for perm in ((0, 1, 2), (1, 2, 0), (2, 0, 1), (0, 2, 1), (2, 1, 0), (1, 0, 2)):
                par = 1 if perm in ((0, 1, 2), (1, 2, 0), (2, 0, 1)) else -1
                for s in [(a, b, c) for a in (-1, 1) for b in (-1, 1) for c in (-1, 1)]:
                    if par * s[0] * s[1] * s[2] == 1:
                        M = [[0.0] * 3 for _ in range(3)]
                        for i in range(3):
                            M[i][perm[i]] = float(s[i])
                        mats.append(M)
            for _ in range(40):
                q = [rng.gauss(0, 1) for _ in range(4)]
                nq = math.sqrt(sum(x * x for x in q))
                a, b, c_, dd = [x / nq for x in q]
                mats.append([[a * a + b * b - c_ * c_ - dd * dd, 2 * (b * c_ - a * dd), 2 * (b * dd + a * c_)],
                             [2 * (b * c_ + a * dd), a * a - b * b + c_ * c_ - dd * dd, 2 * (c_ * dd - a * b)],
                             [2 * (b * dd - a * c_), 2 * (c_ * dd + a * b), a * a - b * b - c_ * c_ + dd * dd]])
            for M in mats:
                msd = 0.0
                for p, q0 in zip(pos[:4], ref):
                    v = [p[i] - cp[i] for i in range(3)]
                    w = [q0[i] - cr[i] for i in range(3)]
                    Rw = [sum(M[i][j] * w[j] for j in range(3)) for i in range(3)]
                    msd += sum((v[i] - Rw[i]) ** 2 for i in range(3))
                cands.append(int(math.floor(msd / 4.0 * 1e6)))
            events.append({"e": "Fit", "msd": int(math.ceil(rm * rm * 1e6)), "cands": cands})
            ctx.nontriv(["fit", ref, pos])
    finally:
        d.close()
    return events


def run(ctx):
    ctx.rule = ("cases = 4 base geometries x 3 mass patterns, each with its 23 non-trivial proper cube rotations (with and without a translation), a pure translation, three whole-cell translations of one group and "
                "two relistings (reversed; reversed with a duplicate); non-trivial = any transformed case; plus random non-congruent configurations for the optimality of the fitted rotation")
    ctx.assumptions = [
        "square roots, arc cosines and arc tangents of the exact integer arguments are evaluated in double precision by the harness (tolerance 1e-10 on lengths, 1e-8 degrees on angles)",
        "optimality of the fitted rotation is decided against 64 competing rotations per configuration (24 cube rotations, 40 random), not against all of SO(3)",
        "components needing Tcl, Lepton or protein topologies and the path variables are not exercised",
    ]
    vlib.build()
    quick = ctx.quick()
    g = vlib.tlc("MCValues", "MCValues.cfg" if quick else "MCValues_thorough.cfg", workers=8, timeout=1800)
    ctx.add_tlc(g, "MCValues (invariance of the definitions + case generation)")
    if g.violation:
        ctx.violation("model:" + g.violation, "Values.tla violates %s" % g.violation, {"tlc": vlib.counterexample(g)})
        return
    cases = g.beh
    for c in cases:
        if c["rot"]["p"] != [1, 2, 3] or c["rot"]["s"] != [1, 1, 1] or any(c["tr"]) or any(c["shiftB"]) or c["listing"] != "plain":
            ctx.nontriv([c["geo"], c["m"], c["rot"], c["tr"], c["shiftB"], c["listing"]])
    ctx.sample({k: cases[0][k] for k in ("geo", "m", "rot", "tr", "vals")})

    def on(status, info, c):
        ctx.violation(info["key"], "geometry %s masses %s rotation %s translation %s cell shift %s listing %s: %s" % (
            c["geo"], c["m"], c["rot"], c["tr"], c["shiftB"], c["listing"], info["what"]), {"case": c})
    vlib.replay_parallel(ctx, cases, chunk, on, "value cases")
    rng = random.Random(ctx.seed)
    geoms = sorted({json.dumps(c["geo"]) for c in cases})
    ev = optimal_events(ctx, [json.loads(x) for x in geoms], rng, 40 if quick else 600)
    vlib.validate_trace(ctx, "OptRotTrace", "OptRotTrace.cfg", ev, "optimal-rotation deviations", nexec=len(ev), key="fit-not-optimal")


def replay(ctx, path):
    j = json.load(open(path))
    c = j["payload"].get("case")
    if c:
        vlib.build()
        for status, info, cc in chunk(([c], 0)):
            if status == "mismatch":
                ctx.violation(info["key"], info["what"], {"case": c})
