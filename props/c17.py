"""C17: extended-Lagrangian coordinates follow the documented integrator.
spec/ExtLag.tla (mechanism with repeated-step reversion, restart, reflection vs the recurrence over physical steps),
MCExtLag; TLC-generated behaviours replayed into the real library with exact dyadic parameters."""
import json, os, re, random, math
import vlib
from vlib import close


def config_text(p):
    cv = ["scriptedColvarForces on", "colvar {", "  name z", "  width 1.0"]
    if p["reflLo"] or p["reflHi"]:
        cv += ["  lowerBoundary %d.0" % (p["lower"] if p["reflLo"] else -50), "  upperBoundary %d.0" % (p["upper"] if p["reflHi"] else 50)]
    cv += ["  extendedLagrangian on", "  extendedTemp 1.0", "  extendedFluctuation 1.0", "  extendedTimeConstant %r" % (2.0 * math.pi),
           "  extendedLangevinDamping %r" % (1000.0 * math.log(5.0 / 3.0) if p["langevin"] else 0.0)]
    if p["reflLo"]:
        cv.append("  reflectingLowerBoundary on")
    if p["reflHi"]:
        cv.append("  reflectingUpperBoundary on")
    if p["subtract"]:
        cv.append("  subtractAppliedForce on")
    cv += ["  distanceZ {", "    main { atomNumbers 1 }", "    ref { dummyAtom (0,0,0) }", "    axis (0,0,1)", "    oneSiteTotalForce on", "  }", "}"]
    return "\n".join(cv) + "\n"


class Runner:
    def __init__(self, d, p):
        self.d, self.p, self.cfg = d, p, config_text(p)
        self.start()

    def start(self, state=None):
        self.d.cmd(op="new", natoms=2, kB=1.0, dt=1.0, T=0.0)
        r = self.d.cmd(op="config", text=self.cfg)
        if r.get("rc") != 0:
            raise vlib.MachineryError("C17 config rejected: %s" % r.get("errtext"))
        self.d.cmd(op="script", args=["cv", "colvar", "z", "set", "total_force", "1"])
        if state is not None:
            r = self.d.cmd(op="load", state=state)
            if r.get("rc") != 0:
                raise vlib.MachineryError("C17 load failed: %s" % r)

    def act(self, a, sc):
        if a["a"] == "Restart":
            st = self.d.cmd(op="save")["state"]
            self.d.cmd(op="destroy")
            self.start(st)
        r = self.d.cmd(op="step", pos=[[0, 0, a["x"] / float(sc)], [0, 0, 0]], cvforce={"z": a["fb"] / float(sc)}, rand=[a["r"] / float(sc)] * 4, newrun=(a["a"] == "NewRun"))
        if r.get("op") != "step":
            return r
        st = self.d.cmd(op="save")["state"]
        m = re.search(r"extended_x\s+(\S+)\s+extended_v\s+(\S+)", st)
        cv = r["cvs"]["z"]
        return {"it": r["it"], "xr": cv["x"][0], "fat": r["fat"].get("0", [0, 0, 0])[2], "E": r["E"], "ft": cv.get("ft", [0.0])[0], "err": r["err"],
                "sx": float(m.group(1)) if m else None, "sv": float(m.group(2)) if m else None}


def replay_chunk(args):
    behs, seed = args
    d = vlib.Drv()
    out = []
    try:
        for beh in behs:
            p, sc = beh["p"], float(beh["sc"])
            try:
                run = Runner(d, p)
            except vlib.MachineryError as e:
                out.append(("machinery", str(e), beh))
                continue
            res = ("ok", None, None)
            for k, a in enumerate(beh["acts"]):
                got = run.act(a, sc)
                if p["langevin"] and a["edge"]:
                    break       # exact landing on a reflecting boundary with inexact friction coefficients: rounding decides; not compared further
                if got.get("op") == "died":
                    res = ("mismatch", {"act": k, "fields": ["died signal %s" % got.get("signal")]}, beh)
                    break
                bad = []
                if got["it"] != a["it"]:
                    bad.append("step %r vs %r" % (got["it"], a["it"]))
                if not close(got["xr"], a["xr"] / sc):
                    bad.append("reported value %r vs %r" % (got["xr"], a["xr"] / sc))
                if not close(got["fat"], a["fat"] / sc):
                    bad.append("atom force %r vs spring %r" % (got["fat"], a["fat"] / sc))
                if not close(got["ft"], a["ft"] / sc):
                    bad.append("total force %r vs %r" % (got["ft"], a["ft"] / sc))
                if got["sx"] is not None and (not close(got["sx"], a["xr"] / sc) or not close(got["sv"], a["vr"] / sc)):
                    bad.append("state (x, v) = (%r, %r) vs (%r, %r)" % (got["sx"], got["sv"], a["xr"] / sc, a["vr"] / sc))
                if not p["langevin"]:
                    e = a["ep2"] / (2 * sc * sc) + a["ek8"] / (8 * sc * sc)
                    if not close(got["E"], e):
                        bad.append("energy %r vs %r" % (got["E"], e))
                if (got["err"] != 0) != bool(a["err"]):
                    bad.append("error flag %r vs %r" % (got["err"], a["err"]))
                if bad:
                    res = ("mismatch", {"act": k, "fields": bad}, beh)
                    break
            if res[0] == "ok" and beh["acts"] and beh["acts"][-1].get("q"):
                res = ("known", {"keys": beh["acts"][-1]["q"]}, beh)
            out.append(res)
            if d.dead:
                d = vlib.Drv()
            else:
                d.cmd(op="destroy")
    finally:
        d.close()
    return [(s, i, (b if s != "ok" else None)) for s, i, b in out]


def run(ctx):
    ctx.rule = ("behaviours = First/Step/NewRun/Restart sequences with actual value, bias force and (controlled) random number chosen by TLC, for six parameter records "
                "(no friction / Langevin, reflecting lower / upper / both boundaries, subtractAppliedForce); non-trivial = a behaviour with a run boundary or a reflection and non-zero velocity; distinct by (params, inputs)")
    ctx.assumptions = [
        "k = m = dt = 1 exactly through extendedTemp 1/kB, extendedFluctuation 1, extendedTimeConstant 2 pi; Langevin: exp(-gamma dt) = 3/5 so that the noise amplitude is 4/5; the random source is controlled by the harness",
        "biases act through the scripted-force task on the extended coordinate; multiple time steps for the extended variable and bypassing biases are not covered",
        "no-drift is checked as the exact conservation of the leapfrog invariant in the model; the real code is bound to the recurrence step by step",
    ]
    vlib.build()
    quick = ctx.quick()
    r = vlib.tlc("MCExtLag", "MCExtLag.cfg" if quick else "MCExtLag_thorough.cfg", workers=16, timeout=3000, xmx="24g")
    ctx.add_tlc(r, "MCExtLag properties")
    if r.violation:
        ctx.violation("model:" + r.violation, "ExtLag.tla violates %s" % r.violation, {"tlc": vlib.counterexample(r)[-5000:]})
        return
    g = vlib.tlc("MCExtLag", "MCExtLag_gen.cfg", workers=16, timeout=900)
    ctx.add_tlc(g, "MCExtLag generation (BFS)")
    behs = g.beh
    rng = random.Random(ctx.seed)
    rng.shuffle(behs)
    if quick:
        behs = behs[:3000]
    s = vlib.tlc("MCExtLag", "MCExtLag_sim.cfg", workers=8, simulate=(200 if quick else 3000), depth=8, seed=ctx.seed, timeout=900)
    ctx.add_tlc(s, "MCExtLag generation (simulation)", exhaustive=False)
    if s.violation:
        ctx.violation("model:sim:" + s.violation, "ExtLag.tla violates %s on a simulated behaviour" % s.violation, {"tlc": vlib.counterexample(s)[-5000:]})
    ctx.exhaustive = True
    sb = s.beh[:(800 if quick else 30000)]
    for b in behs[:2] + sb[:1]:
        ctx.sample({"p": b["p"], "acts": b["acts"][:3]})
    for b in behs + sb:
        if any(a["a"] in ("NewRun", "Restart") for a in b["acts"]) and any(a["vr"] != 0 for a in b["acts"]):
            ctx.nontriv([b["p"], [(a["a"], a["x"], a["fb"], a["r"]) for a in b["acts"]]])

    def on(status, info, beh):
        if status == "known":
            for k in info["keys"]:
                ctx.violation(k, "extended Lagrangian: after a restart, a further run command that repeats the first step (run-relative step 0) re-initialises the extended coordinate to the actual value and zeroes its velocity (real code follows the model's mechanism, which departs from the integrator's recurrence)", {"behaviour": beh})
            return
        ctx.violation("replay-mismatch", "params %s action %d (%s): %s" % (json.dumps(beh["p"]), info["act"], beh["acts"][min(info["act"], len(beh["acts"]) - 1)]["a"], "; ".join(info["fields"][:3])), {"behaviour": beh, "info": info})
    vlib.replay_parallel(ctx, behs, replay_chunk, on, "bfs")
    vlib.replay_parallel(ctx, sb, replay_chunk, on, "simulation")


def replay(ctx, path):
    j = json.load(open(path))
    beh = j["payload"].get("behaviour")
    if beh:
        def on(status, info, b):
            ctx.violation("replay-mismatch", str(info), {"behaviour": b})
        vlib.replay_parallel(ctx, [beh], replay_chunk, on, "replay", n=1)
