"""Grid documents (C15): multicolumn files written by the real grids are compared with the specification's final
counts (write side) and read back by a fresh ABF instance through inputPrefix (read side); restart (text) and raw
(binary) forms are round-tripped through state save/load."""
import json, os, re, random, shutil
import vlib
from vlib import close

CV = """colvar {
  name %s
  width %r
  lowerBoundary %r
  upperBoundary %r
  distanceZ {
    main { atomNumbers %d }
    ref { dummyAtom (0,0,0) }
    axis (0,0,1)
    oneSiteTotalForce on
%s  }
}
"""


def read_multicol(path):
    hdr, rows = [], []
    for line in open(path):
        if line.startswith("#"):
            hdr.append(line[1:].split())
        elif line.strip():
            rows.append([float(t) for t in line.split()])
    return hdr, rows


def abf_roundtrip(ctx, wd, shape, seed):
    """shape: list of (lo, width, nbins, periodic).  Runs ABF, writes .count/.grad, reads them in a fresh instance."""
    rng = random.Random(seed)
    nd = len(shape)
    cfg = ""
    for i, (lo, w, n, per) in enumerate(shape):
        extra = ("    period %r\n    wrapAround %r\n" % (n * w, lo + n * w / 2.0)) if per else ""
        cfg += CV % ("z%d" % (i + 1), w, lo, lo + n * w, i + 1, extra)
    abf = "abf {\n  name a\n  colvars %s\n  fullSamples 2\n  integrate off\n%s}\n"
    names = " ".join("z%d" % (i + 1) for i in range(nd))
    d = vlib.Drv(cwd=wd)
    try:
        d.cmd(op="new", natoms=4, prefix="w")
        r = d.cmd(op="config", text=cfg + abf % (names, ""))
        if r.get("rc") != 0:
            raise vlib.MachineryError("C15 ABF config rejected: %s" % r.get("errtext"))
        for k in range(12):
            pos = [[0, 0, shape[i][0] + rng.randint(-1, shape[i][2] * 2) * shape[i][1] / 2.0] if i < nd else [0, 0, 0] for i in range(4)]
            sysf = [[0, 0, float(rng.choice([-2, 1, 3]))] for _ in range(4)]
            d.cmd(op="step", pos=pos, sys=sysf)
        st1 = d.cmd(op="save")["state"]
        d.cmd(op="postrun")
        d.cmd(op="destroy")
        d.cmd(op="new", natoms=4, prefix="r")
        r = d.cmd(op="config", text=cfg + abf % (names, "  inputPrefix w\n"))
        if r.get("rc") != 0:
            return "reading the multicolumn files failed: %s" % r.get("errtext")
        st2 = d.cmd(op="save")["state"]
    finally:
        d.close()

    def grids(st):
        m = re.search(r"abf \{.*?samples\s*\n(.*?)\n\s*\ngradient\s*\n(.*?)\n\}", st, re.S)
        return [float(t) for t in m.group(1).split()], [float(t) for t in m.group(2).split()]
    s1, g1 = grids(st1)
    s2, g2 = grids(st2)
    if s1 != s2:
        return "counts written %r, read back %r" % (s1, s2)
    if len(g1) != len(g2) or any(not close(a, b, 1e-8) for a, b in zip(g1, g2)):
        return "gradients written %r, read back %r" % (g1, g2)
    hdr, rows = read_multicol(os.path.join(wd, "w.count"))
    # header: number of variables, then per variable: lower, width, nbins, periodic flag
    if int(hdr[0][0]) != nd:
        return "multicolumn header announces %s variables, grid has %d" % (hdr[0][0], nd)
    for i, (lo, w, n, per) in enumerate(shape):
        h = hdr[1 + i]
        if not (close(float(h[0]), lo) and close(float(h[1]), w) and int(h[2]) == n and int(h[3]) == (1 if per else 0)):
            return "multicolumn header line %d is %r, grid is lower %r width %r size %d periodic %r" % (i + 1, h, lo, w, n, per)
    if len(rows) != len(s1):
        return "multicolumn file has %d data rows, grid has %d points" % (len(rows), len(s1))
    # rows are bin centres followed by the value, in row-major order
    for j, row in enumerate(rows):
        idx, rem = [], j
        for (lo, w, n, per) in reversed(shape):
            idx.insert(0, rem % n)
            rem //= n
        for i, (lo, w, n, per) in enumerate(shape):
            if not close(row[i], lo + (idx[i] + 0.5) * w):
                return "row %d: coordinate %r is not the centre of bin %d (%r)" % (j, row[i], idx[i], lo + (idx[i] + 0.5) * w)
        if row[nd] != s1[j]:
            return "row %d: count %r in the file, %r in the grid" % (j, row[nd], s1[j])
    return None


def run(ctx):
    shapes = [[(0.0, 1.0, 4, False)], [(-1.5, 0.5, 5, False)], [(-2.0, 1.0, 4, True)],
              [(0.0, 1.0, 3, False), (-1.0, 0.5, 4, False)], [(0.0, 1.0, 3, True), (-1.0, 0.5, 4, False)],
              [(0.0, 1.0, 2, False), (-1.0, 1.0, 2, False), (0.5, 0.5, 3, False)]]
    n = 0
    for si, shape in enumerate(shapes):
        for rep in range(2 if ctx.quick() else 10):
            wd = os.path.join(ctx.workdir, "doc%d_%d" % (si, rep))
            os.makedirs(wd, exist_ok=True)
            bad = abf_roundtrip(ctx, wd, shape, ctx.seed * 100 + si * 10 + rep)
            ctx.evaluations += 1
            ctx.traces += 1
            ctx.nontriv(["doc", si, rep])
            n += 1
            if bad:
                ctx.violation("grid-file-roundtrip", "grid %s: %s" % (json.dumps(shape), bad), {"shape": shape, "seed": ctx.seed * 100 + si * 10 + rep})
            shutil.rmtree(wd, ignore_errors=True)
    ctx.sample({"grid_document_shapes": shapes[:3]})
    vlib.log("grid documents: %d multicolumn round trips" % n)
