"""C09: configuration parsing is total, strict and independent of layout.
spec/Config.tla defines the token-level grammar, the verdict the property prescribes for every token sequence
("R" must be rejected, "OK" must be accepted and define Model, "Any" must only terminate), the layouts and the keyword-level
mutations.  MCConfig enumerates base x layout, base x mutation, every token string up to a length and token edits of the
bases, checks the specification's own theorems (layouts do not change the model, every mutation is an "R") and prints each
case; each case is rendered to text and fed to the real read_config_string(), fresh and after an earlier configuration."""
import json, random, os
import vlib

KEYWORDS = None
PRIOR = ("colvar {\n  name y\n  distanceZ {\n    main { atomNumbers 3 }\n    ref { dummyAtom (0, 0, 0) }\n  }\n}\n"
         "harmonic {\n  name hy\n  colvars y\n  centers 1.5\n  forceConstant 3.0\n}\n")
# a configuration that is rejected by typed-value errors in module-level keywords (reported through the error bits only)
PRIOR_BAD = "colvarsRestartFrequency 1234567x\n"
POS = [[0.5, 0.25, 0.125], [0.75, -0.5, 1.625], [1.0, 2.0, -0.375], [0, 0, 0]]


def keywords():
    global KEYWORDS
    if KEYWORDS is None:
        import re
        txt = open(os.path.join(vlib.SPEC, "Config.tla")).read()
        kt = txt[txt.index("KT == ["):txt.index("Ctxs ==")]
        KEYWORDS = set(re.findall(r"(\w+) \|->", kt))
    return KEYWORDS


def render(toks, lay):
    """Token sequence -> configuration text under the character-level free aspects of the layout record."""
    kws = keywords()
    sep = {"one": " ", "tabs": "\t", "wide": "   "}[lay["ws"]]
    ind = {"one": "", "tabs": "\t", "wide": "    "}[lay["ws"]]
    trail = "  " if lay["ws"] == "wide" else ""
    eol = "\r\n" if lay["eol"] == "crlf" else "\n"
    out, line, depth, incomment = [], [], 0, False
    d0 = 0
    for t in toks + ["nl"]:
        if t == "nl":
            if line:
                out.append(ind * max(d0, 0) + sep.join(line) + trail)
            else:
                out.append(trail if lay["ws"] == "wide" else "")
            line, incomment, d0 = [], False, depth
            continue
        if t == "#c":
            incomment = True
            line.append("#")
            continue
        if incomment:
            line.append(t)
            continue
        if t == "{":
            depth += 1
        elif t == "}":
            depth -= 1
            if not line:
                d0 = depth
        w = t
        if not line and t in kws:
            if lay["case"] == "lower":
                w = t.lower()
            elif lay["case"] == "upper":
                w = t.upper()
        line.append(w)
    txt = eol.join(out)
    return txt


def case_cmds(text, prior):
    cmds = [{"op": "new", "natoms": 4}]
    if prior == "bad":
        cmds.append({"op": "config", "text": PRIOR_BAD})
    elif prior:
        cmds.append({"op": "config", "text": PRIOR})
    cmds.append({"op": "config", "text": text})
    cmds.append({"op": "step", "pos": POS})
    cmds.append({"op": "step", "pos": [[p[0] + 0.25, p[1], p[2] - 0.5] for p in POS]})
    cmds.append({"op": "destroy"})
    return cmds


def observe(reply, prior):
    reps = reply["replies"]
    c = reps[2 if prior else 1]
    steps = reps[-3:-1]
    obs = {"rc": c["rc"], "err": c["err"], "ncv": c["ncv"], "nb": c["nb"], "errtext": c.get("errtext", "")[:300]}
    if c["rc"] == 0:
        obs["steps"] = [{"E": s.get("Etot"), "fat": s.get("fat"), "cvs": {k: v["x"] for k, v in s.get("cvs", {}).items()},
                         "bE": {k: v["E"] for k, v in s.get("biases", {}).items()}, "rc": s.get("rc")} for s in steps]
    return obs


def replay_chunk(args):
    cases, seed = args
    out = []
    d = None
    try:
        for c in cases:
            text = render(c["toks"], c["lay"])
            res = {}
            bad = None
            for prior in (False, True, "bad"):
                if d is None or d.dead:
                    if d:
                        d.close()
                    d = vlib.Drv(timeout=20)
                r = d.cmd(op="seq", cmds=case_cmds(text, prior))
                if r.get("op") != "seq":
                    kind = "hang" if r.get("timeout") else "crash"
                    bad = (kind, {"what": "the parser %s (signal %s)" % ("did not return within 20 s" if kind == "hang" else "killed the process", r.get("signal")), "prior": prior})
                    break
                res[prior] = observe(r, prior)
            if bad:
                out.append((bad[0], dict(bad[1], text=text), c))
                continue
            o0, o1, o2 = res[False], res[True], res["bad"]
            acc0, acc1 = o0["rc"] == 0, o1["rc"] == 0
            # the verdict must not depend on an earlier REJECTED configuration either
            if c["v"] in ("R", "OK") and (o2["rc"] == 0) != acc0:
                out.append(("history", {"what": "%s when fresh but %s after an earlier rejected configuration%s" % (
                    "accepted" if acc0 else "rejected", "accepted" if o2["rc"] == 0 else "rejected", ("" if o2["rc"] == 0 else ": " + o2["errtext"][:120])), "text": text}, c))
                continue
            if c["v"] == "OK" and acc0 and (o2["ncv"], o2["nb"], json.dumps(o2.get("steps"), sort_keys=True)) != (o0["ncv"], o0["nb"], json.dumps(o0.get("steps"), sort_keys=True)):
                out.append(("history", {"what": "defines a different model after an earlier rejected configuration", "text": text}, c))
                continue
            v = c["v"]
            if v == "R" and (acc0 or acc1):
                out.append(("accepted", {"what": "accepted (%s) although the specification requires rejection" % ("fresh" if acc0 else "after an earlier configuration only"),
                                         "text": text, "ncv": o0["ncv"], "nb": o0["nb"], "fresh": acc0, "after_prior": acc1}, c))
                continue
            if v == "OK":
                if not (acc0 and acc1):
                    out.append(("rejected", {"what": "rejected (%s): %s" % ("fresh" if not acc0 else "after an earlier configuration", (o0 if not acc0 else o1)["errtext"]), "text": text}, c))
                    continue
                if (o0["ncv"], o0["nb"]) != (c["ncv"], c["nb"]) or (o1["ncv"], o1["nb"]) != (c["ncv"] + 1, c["nb"] + 1):
                    out.append(("model", {"what": "defines %d variables and %d biases (%d, %d after the earlier configuration), the specification %d and %d" % (
                        o0["ncv"], o0["nb"], o1["ncv"], o1["nb"], c["ncv"], c["nb"]), "text": text}, c))
                    continue
            if acc0 != acc1 and v == "Any":
                # history dependence of the verdict is only a violation where the specification fixes the verdict
                pass
            out.append(("ok", {"acc": acc0, "steps": o0.get("steps"), "steps1": o1.get("steps")}, c if c["kind"] == "layout" else None))
    finally:
        if d:
            d.close()
    return out


def classify(c):
    """Key for known-findings matching: the class of input, specific enough that a different failure is still reported."""
    return c.get("why", "-")


def run(ctx):
    ctx.rule = ("cases = token sequences with the specification's verdict: 3 base configurations x 576 layouts, x every keyword-level mutation (misspelt, misplaced, no value, text for "
                "a number, four brace mutations at every block), every string over a 10-11 token alphabet up to length 4 (5 thorough), every single (double, thorough) token edit of rendered bases; "
                "each executed fresh and after an earlier configuration; non-trivial = a case whose verdict is R or OK (the specification fixes the outcome)")
    ctx.assumptions = [
        "the renderer (props/c09.py render) applies letter case only to keywords at the beginning of a line and never alters values",
        "totality is decided on the enumerated token language only; arbitrary byte strings are outside the specification",
    ]
    vlib.build()
    quick = ctx.quick()
    g = vlib.tlc("MCConfig", "MCConfig.cfg" if quick else "MCConfig_thorough.cfg", workers=16, timeout=6000, xmx="24g")
    ctx.add_tlc(g, "MCConfig (theorems of the grammar + case generation)")
    if g.violation:
        ctx.violation("model:" + g.violation, "Config.tla violates %s" % g.violation, {"tlc": vlib.counterexample(g)})
        return
    cases = g.beh
    rng = random.Random(ctx.seed)
    rng.shuffle(cases)
    if quick:
        keep, nlay, nmis = [], 0, 0
        for c in cases:
            if c["kind"] == "layout":
                nlay += 1
                if nlay > 600:
                    continue
            if c["kind"] == "mut" and c["m"] == "misplaced":
                nmis += 1
                if nmis > 300:
                    continue
            keep.append(c)
        cases = keep
    for c in cases:
        if c["v"] in ("R", "OK"):
            ctx.nontriv(c["toks"])
    for c in cases[:3]:
        ctx.sample({"kind": c["kind"], "verdict": c["v"], "text": render(c["toks"], c["lay"])[:300]})
    classes = {}

    def on(status, info, c):
        if status == "ok":
            return
        key = "%s:%s" % (status, classify(c))
        ctx.violation(key, "%s [%s%s]: %s; input %r" % (status, c["kind"], ("/" + c["m"]) if c["m"] != "-" else "", info["what"], info["text"][:400]),
                      {"case": c, "info": info})

    # layout classes need the per-case observables: collect them from the ok results
    chunks = [(cases[i::16], ctx.seed * 1000 + i) for i in range(16) if cases[i::16]]
    results = vlib.parallel_map(replay_chunk, chunks, 16)
    nbad = 0
    for chunk in results:
        for status, info, c in chunk:
            ctx.evaluations += 2
            ctx.traces += 1
            if status != "ok":
                nbad += 1
                on(status, info, c)
            elif c is not None:
                classes.setdefault(c["base"], []).append((c, info))
    vlib.log("replayed %d cases, %d not ok" % (len(cases), nbad))
    # bit-identical results within each layout class
    for base, lst in classes.items():
        ref = None
        for c, info in lst:
            sig = json.dumps([info["steps"], info["steps1"]], sort_keys=True)
            if ref is None:
                ref = (sig, c)
            elif sig != ref[0]:
                ctx.violation("layout-differs", "two layouts of base configuration %d give different results: %r vs %r" % (
                    base, render(ref[1]["toks"], ref[1]["lay"])[:300], render(c["toks"], c["lay"])[:300]), {"a": ref[1], "b": c})
                break
        ctx.extra.setdefault("layout_class_sizes", {})[str(base)] = len(lst)


def replay(ctx, path):
    j = json.load(open(path))
    c = j["payload"].get("case")
    if c:
        for status, info, cc in replay_chunk(([c], 0)):
            if status != "ok":
                ctx.violation("%s:%s" % (status, classify(c)), info["what"], {"case": c, "info": info})
