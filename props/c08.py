"""C08: bias contributions superpose and multiple-time-step scaling conserves impulse.
spec/Engine.tla (module pipeline over Deps.tla on the REAL dependency tables; three lock-stepped modules AB / A / B),
MCEngine; TLC-generated behaviours replayed into three real module instances."""
import json, os, re, random
import vlib, c13
from vlib import close

KNOWN = {
    "mts-late-start-evaluated": "a bias with timeStepFactor n in a module whose first step is not a multiple of n is evaluated (and applies n times its force) on every step until its first wake-up: \"awake\" starts disabled, so putting the bias to sleep is a no-op and \"active\" stays on",
}


def bias_text(name, d):
    if d["kind"] == "harmonic":
        body = "  centers %d.0\n  forceConstant %d.0\n" % (d["c"], d["k"])
    elif d["kind"] == "linear":
        body = "  centers 0.0\n  forceConstant %d.0\n" % d["k"]
    else:
        body = ""
    return "%s {\n  name %s\n  colvars z\n%s%s}\n" % (d["kind"], name, body, ("  timeStepFactor %d\n" % d["tsf"]) if d["tsf"] > 1 else "")


CV = c13.cv_text("z", 1, "  lowerBoundary 0.0\n  upperBoundary 4.0\n")


def replay_chunk(args):
    behs, seed = args
    ds = {k: vlib.Drv() for k in ("AB", "A", "B")}
    out = []
    try:
        for beh in behs:
            pair, first = beh["pair"], beh["first"]
            cfgs = {"AB": CV + bias_text("b1", pair[0]) + bias_text("b2", pair[1]), "A": CV + bias_text("b1", pair[0]), "B": CV + bias_text("b2", pair[1])}
            ok = True
            for k, d in ds.items():
                d.cmd(op="new", natoms=8, step0=first)
                r = d.cmd(op="config", text=cfgs[k])
                if r.get("rc") != 0:
                    out.append(("machinery", "C08 config rejected: %s" % r, beh))
                    ok = False
                    break
            if not ok:
                continue
            res = ("ok", None, None)
            known = None
            for i, o in enumerate(beh["outs"]):
                got = {}
                for k, d in ds.items():
                    r = d.cmd(op="step", pos=[[0, 0, float(o["z"])]] * 8)
                    if r.get("op") != "step":
                        got = None
                        break
                    got[k] = {"it": r["it"], "E": r["E"], "f": r["fat"].get("0", [0, 0, 0])[2], "err": r["err"],
                              "act": [r["biases"][b]["active"] for b in sorted(r["biases"])]}
                if got is None:
                    res = ("mismatch", {"act": i, "fields": ["a module died"]}, beh)
                    break
                bad = []
                for k in ("AB", "A", "B"):
                    m = o[k]
                    if got[k]["it"] != o["t"]:
                        bad.append("%s: step %r vs %r" % (k, got[k]["it"], o["t"]))
                    if not close(got[k]["E"], m["e2"] / 2.0) or not close(got[k]["f"], m["f"]):
                        bad.append("%s: energy %r force %r; specification %r %r" % (k, got[k]["E"], got[k]["f"], m["e2"] / 2.0, m["f"]))
                    if got[k]["act"] != [1 if a else 0 for a in m["act"]]:
                        bad.append("%s: active biases %r vs %r" % (k, got[k]["act"], m["act"]))
                    if (got[k]["err"] != 0) != bool(m["err"]):
                        bad.append("%s: error state %r vs %r" % (k, got[k]["err"], m["err"]))
                if not close(got["AB"]["E"], got["A"]["E"] + got["B"]["E"]) or not close(got["AB"]["f"], got["A"]["f"] + got["B"]["f"]):
                    bad.append("superposition: AB (%r, %r) vs A + B (%r, %r)" % (got["AB"]["E"], got["AB"]["f"], got["A"]["E"] + got["B"]["E"], got["A"]["f"] + got["B"]["f"]))
                if bad:
                    res = ("mismatch", {"act": i, "fields": bad}, beh)
                    break
                # the property itself on the real code: asleep = contributes nothing
                for k, d in (("A", pair[0]), ("B", pair[1])):
                    if d["tsf"] > 1 and o["t"] % d["tsf"] != 0 and (got[k]["E"] != 0 or got[k]["f"] != 0) and known is None:
                        known = "step %d: bias with timeStepFactor %d evaluated off schedule (energy %r force %r); run started at step %d" % (o["t"], d["tsf"], got[k]["E"], got[k]["f"], first)
            if res[0] == "ok" and known:
                res = ("known", {"what": known}, beh)
            out.append(res)
            for d in ds.values():
                d.cmd(op="destroy")
    finally:
        for d in ds.values():
            d.close()
    return [(s, i, (b if s != "ok" else None)) for s, i, b in out]


def run(ctx):
    ctx.rule = ("behaviours = every ordered pair of biases from a 6-entry menu (harmonic/linear/histogram, timeStepFactor 1..3) x first step in {0,1,3} x position sequences "
                "of length 6 over 2 lattice values, three modules AB/A/B in lock-step; non-trivial = at least one bias with timeStepFactor > 1 and a non-zero force; distinct by (pair, first step, positions)")
    ctx.assumptions = [
        "dependency tables and bias-creation operation lists are recorded from the running implementation at check time (hook 1)",
        "the three modules are three real instances fed identical positions; biases that read total forces are not in the menu of this check",
    ]
    vlib.build()
    quick = ctx.quick()
    macros, tables = c13.record_macros(ctx)
    mp, tp = os.path.join(ctx.workdir, "macros.ndjson"), os.path.join(ctx.workdir, "tables.ndjson")
    vlib.write_ndjson(mp, [macros])
    vlib.write_ndjson(tp, tables)
    env = {"MACROS": mp, "TABLES": tp}
    r = vlib.tlc("MCEngine", "MCEngine.cfg" if quick else "MCEngine_thorough.cfg", workers=16, env=env, timeout=3000)
    ctx.add_tlc(r, "MCEngine (superposition, schedule, impulse on the real tables)")
    if r.violation:
        ctx.violation("model:" + r.violation, "Engine.tla violates %s" % r.violation, {"tlc": vlib.counterexample(r)[-5000:]})
        return
    f = vlib.tlc("MCEngine", "MCEngine_full.cfg", workers=16, env=env, timeout=1200)
    ctx.add_tlc(f, "MCEngine (schedule for every first step)")
    if f.violation:
        ctx.violation("mts-late-start-evaluated", KNOWN["mts-late-start-evaluated"] + " (model: %s violated)" % f.violation, {"tlc": vlib.counterexample(f)[-3000:]})
    behs = r.beh
    rng = random.Random(ctx.seed)
    rng.shuffle(behs)
    if quick:
        behs = behs[:1500]
    for b in behs[:2]:
        ctx.sample({"pair": b["pair"], "first": b["first"], "outs": b["outs"][:3]})
    for b in behs:
        if any(d["tsf"] > 1 for d in b["pair"]) and any(o["AB"]["f"] != 0 for o in b["outs"]):
            ctx.nontriv([b["pair"], b["first"], [o["z"] for o in b["outs"]]])

    def on(status, info, beh):
        if status == "known":
            ctx.violation("mts-late-start-evaluated", KNOWN["mts-late-start-evaluated"] + " (real code: %s)" % info["what"], {"behaviour": beh})
        else:
            ctx.violation("replay-mismatch", "pair %s first step %d, step index %d: %s" % (json.dumps(beh["pair"]), beh["first"], info["act"], "; ".join(info["fields"][:3])), {"behaviour": beh, "info": info})
    vlib.replay_parallel(ctx, behs, replay_chunk, on, "three-module replay", n=5)


def replay(ctx, path):
    j = json.load(open(path))
    beh = j["payload"].get("behaviour")
    if beh:
        def on(status, info, b):
            ctx.violation("replay-mismatch", str(info), {"behaviour": b})
        vlib.replay_parallel(ctx, [beh], replay_chunk, on, "replay", n=1)
