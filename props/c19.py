"""C19: written outputs faithfully describe the internal state at the stated step.
spec/Output.tla (trajectory labels / data lines, running average and standard deviation), MCOutput, OutputTrace:
the lines the real module appends to its files at every call are validated against the specification."""
import json, os, re, random, shutil
import vlib
from vlib import close


def config_text(p):
    cv = ["colvar {", "  name z", "  distanceZ {", "    main { atomNumbers 1 }", "    ref { dummyAtom (0,0,0) }", "    axis (0,0,1)", "  }"]
    if p["clen"] > 0:
        cv += ["  corrFunc on", "  corrFuncType coordinate", "  corrFuncLength %d" % p["clen"], "  corrFuncStride %d" % p["cstride"], "  corrFuncNormalize off"]
    if p["len"] > 0:
        cv += ["  runAve on", "  runAveLength %d" % p["len"], "  runAveStride %d" % p["stride"]]
    cv.append("}")
    return "\n".join(cv) + "\n"


BIAS = "harmonic {\n  name h\n  colvars z\n  centers 0.0\n  forceConstant 1.0\n  outputEnergy on\n}\n"


def new_lines(path, seen):
    if not os.path.exists(path):
        return []
    txt = open(path).read()
    lines = txt.split("\n")
    if not txt.endswith("\n"):
        lines = lines[:-1]      # an incomplete last line is not yet written
    else:
        lines = lines[:-1]
    out = lines[seen[0]:]
    seen[0] = len(lines)
    return [l for l in out if l.strip()]


def record(ctx, nruns, nsteps):
    rng = random.Random(ctx.seed + 1900)
    events = []
    base = os.path.join(ctx.workdir, "out")
    shown = 0
    for ri in range(nruns):
        wd = os.path.join(base, "r%d" % ri)
        os.makedirs(wd, exist_ok=True)
        p = {"freq": rng.choice([1, 2, 3]), "len": rng.choice([0, 2, 3, 4]), "stride": rng.choice([1, 1, 2]), "toggle": rng.random() < 0.5}
        p.update({"clen": 0, "cstride": 1, "start": 0})
        if rng.random() < 0.35:
            p.update({"len": 0, "toggle": False, "clen": rng.choice([1, 2, 3]), "cstride": rng.choice([1, 1, 2]), "start": rng.choice([0, 0, 5, 3])})
        if p["len"] > 0:
            p["toggle"] = False
        d = vlib.Drv(cwd=wd)
        try:
            d.cmd(op="new", natoms=2, prefix="o", trajFreq=p["freq"], restartFreq=(p["cstride"] if p["clen"] else 0), step0=p["start"])
            r = d.cmd(op="config", text=config_text(p))
            if r.get("rc") != 0:
                raise vlib.MachineryError("C19 config rejected: %s" % r.get("errtext"))
            events.append({"e": "Reset", "p": p})
            L = p["len"]
            seen_t, seen_r = [0], [0]
            first, runs, lastx, bias = True, 1, 0, False
            for k in range(nsteps):
                u = rng.random()
                if not first and p["toggle"] and u < 0.2 and events[-1]["e"] != "Toggle":
                    if bias:
                        d.cmd(op="script", args=["cv", "bias", "h", "delete"])
                    else:
                        d.cmd(op="config", text=BIAS)
                    bias = not bias
                    events.append({"e": "Toggle"})
                    continue
                a = "First" if first else ("NewRun" if (u > 0.9 and runs < 3) else "Step")
                x = lastx if a == "NewRun" else rng.choice([1, 2, 4, -3])
                if a == "NewRun":
                    runs += 1
                r = d.cmd(op="step", pos=[[0, 0, float(x)], [0, 0, 0]], newrun=(a == "NewRun"))
                if r.get("op") != "step":
                    ctx.violation("crash", "implementation died while writing outputs", {"p": p})
                    break
                d.cmd(op="flush")
                first, lastx = False, x
                tl, rl = [], []
                for line in new_lines(os.path.join(wd, "o.colvars.traj"), seen_t):
                    t = line.split()
                    if t[0] == "#":
                        tl.append({"k": "label", "ncols": len(t) - 1, "cols": t[1:]})
                    else:
                        tl.append({"k": "data", "ncols": len(t), "step": int(t[0]), "x": vlib.lat(float(t[1]), 1)})
                for line in new_lines(os.path.join(wd, "o.z.runave.traj"), seen_r):
                    t = line.split()
                    if t[0] == "#":
                        continue
                    mean, sd = float(t[1]), float(t[2])
                    rl.append({"step": int(t[0]), "sum": vlib.lat(mean * L, 1, 1e-7), "var": vlib.lat(sd * sd * L * (L - 1), 1, 1e-6)})
                acfn, acfs = -1, []
                af = os.path.join(wd, "o.z.corrfunc.dat")
                if p["clen"] and os.path.exists(af) and r["it"] % p["cstride"] == 0 and a != "First":
                    txt = open(af).read()
                    m = re.search(r"Number of samples = (\d+)", txt)
                    if m:
                        acfn = int(m.group(1))
                        rows = [l.split() for l in txt.splitlines() if l.strip() and not l.startswith("#")]
                        acfs = [vlib.lat(float(t[1]) * acfn, 1, 1e-7) for t in rows]
                events.append({"e": a, "x": x, "traj": tl, "ravg": rl, "acfn": acfn, "acfs": acfs})
                if acfn > 0:
                    ctx.nontriv([ri, k, "acf"])
                if shown < 3 and (rl or len(tl) > 1):
                    ctx.sample({"params": p, "event": events[-1]})
                    shown += 1
                if rl or any(t["k"] == "label" for t in tl):
                    ctx.nontriv([ri, k])
        finally:
            d.close()
        shutil.rmtree(wd, ignore_errors=True)
    return events


# ------------------------------------------------------------------ correlation functions of non-scalar variables (spec/Corr.tla)

CORR_VS = [[1, 2, 2], [2, -2, 1], [2, 4, 4], [0, -6, 0], [-2, 1, 2], [0, 0, 3]]
CORR_TYPES = {"coor": "coordinate", "vel": "velocity", "p2": "coordinate_p2"}
CORR_MENU = [("vec", "coor", False), ("vec", "p2", False), ("vec", "vel", False), ("unit", "coor", False), ("unit", "p2", False), ("scalar", "vel", False),
             ("vec", "coor", True), ("unit", "p2", True), ("unit", "coor", True)]


def corr_config(p):
    def comp_of(atom):
        if p["kind"] == "vec":
            return ["  distanceVec {", "    group1 { dummyAtom (0,0,0) }", "    group2 { atomNumbers %d }" % atom, "  }"]
        if p["kind"] == "unit":
            return ["  distanceDir {", "    group1 { dummyAtom (0,0,0) }", "    group2 { atomNumbers %d }" % atom, "  }"]
        return ["  distanceZ {", "    main { atomNumbers %d }" % atom, "    ref { dummyAtom (0,0,0) }", "    axis (1,0,0)", "  }"]
    comp = comp_of(1)
    other = []
    if p.get("cross"):
        # the second variable (value = the first one's with its components rotated: atom 2 is placed there)
        other = ["colvar {", "  name y"] + comp_of(2) + ["}"]
        comp = comp + ["  corrFuncWithColvar y"]
    cv = other + ["colvar {", "  name z"] + comp + ["  corrFunc on", "  corrFuncType %s" % CORR_TYPES[p["ctype"]], "  corrFuncLength %d" % p["clen"],
                                           "  corrFuncStride %d" % p["cstride"], "  corrFuncNormalize off", "}"]
    return "\n".join(cv) + "\n"


def corr_scale(p):
    if p["ctype"] == "p2":
        return 2592
    if p["ctype"] == "coor" and p["kind"] == "unit":
        return 36
    return 1


def record_corr(ctx, nruns, nsteps):
    rng = random.Random(ctx.seed + 1950)
    events = []
    base = os.path.join(ctx.workdir, "corr")
    shown = 0
    for ri in range(nruns):
        wd = os.path.join(base, "r%d" % ri)
        os.makedirs(wd, exist_ok=True)
        kind, ct, cross = CORR_MENU[ri % len(CORR_MENU)]
        p = {"kind": kind, "ctype": ct, "clen": rng.choice([1, 2, 3]), "cstride": rng.choice([1, 1, 2, 3]), "cross": cross}
        sc = corr_scale(p)
        d = vlib.Drv(cwd=wd)
        try:
            d.cmd(op="new", natoms=2, prefix="o", trajFreq=1, restartFreq=p["cstride"], step0=0)
            r = d.cmd(op="config", text=corr_config(p))
            if r.get("rc") != 0:
                raise vlib.MachineryError("C19 correlation config rejected: %s" % r.get("errtext"))
            events.append({"e": "Reset", "p": p})
            first, runs, lastx = True, 1, [0, 0, 0]
            af = os.path.join(wd, "o.z.corrfunc.dat")
            for k in range(nsteps):
                u = rng.random()
                a = "First" if first else ("NewRun" if (u > 0.88 and runs < 3) else "Step")
                x = lastx if a == "NewRun" else rng.choice(CORR_VS)
                if a == "NewRun":
                    runs += 1
                if os.path.exists(af):
                    os.remove(af)
                r = d.cmd(op="step", pos=[[float(c) for c in x], [float(x[1]), float(x[2]), float(x[0])]], newrun=(a == "NewRun"))
                if r.get("op") != "step":
                    ctx.violation("crash", "implementation died while computing a correlation function", {"p": p})
                    break
                d.cmd(op="flush")
                first, lastx = False, x
                acfn, acfs = -2, []
                if os.path.exists(af):
                    txt = open(af).read()
                    m = re.search(r"Number of samples = (\d+)", txt)
                    if m:
                        acfn = int(m.group(1))
                        rows = [l.split() for l in txt.splitlines() if l.strip() and not l.startswith("#")]
                        lags = [int(t[0]) for t in rows]
                        if lags != [p["cstride"] * i for i in range(p["clen"] + 1)]:
                            ctx.violation("corr-lags", "correlation file lists lags %r for corrFuncLength %d, corrFuncStride %d" % (lags, p["clen"], p["cstride"]), {"p": p, "file": txt})
                        acfs = [vlib.lat(float(t[1]) * acfn * sc, 1, 1e-6) for t in rows]
                if a == "First" or (acfn == -2 and r["it"] % p["cstride"] != 0):
                    acfn = -1          # the file is not due at the first call nor off the restart frequency
                events.append({"e": a, "x": x, "acfn": acfn, "acfs": acfs, "hasv": False, "v": [0, 0, 0]})
                if acfn > 0:
                    ctx.nontriv(["corr", ri, k])
                    if shown < 2:
                        ctx.sample({"params": p, "event": events[-1]})
                        shown += 1
        finally:
            d.close()
        shutil.rmtree(wd, ignore_errors=True)
    return events


def run(ctx):
    ctx.rule = ("recorded executions: trajectory frequency in {1,2,3}, running average length in {0,2,3,4} and stride in {1,2}, a bias with an energy column added and deleted at run time, "
                "new runs repeating a step; every line appended to the trajectory and running-average files during a call is an observation; non-trivial = a call that appended a label line or a running-average line")
    ctx.assumptions = [
        "files are flushed after every call and parsed by white space (no dependence on column widths)",
        "the running average file reports the mean and the standard deviation; they are compared through mean*L and stddev^2*L*(L-1), which are integers for integer values",
        "autocorrelation functions (not normalised, offset 0): coordinate of a scalar (Output.tla); coordinate, velocity and second Legendre polynomial of 3-vectors, unit vectors and scalars on the norm-3/6 lattice (Corr.tla); cross correlation between two variables of the same type (the code's named deviation is followed and reported); corrFuncOffset and normalisation are not covered; restraint centres and accumulated work: see C06",
    ]
    vlib.build()
    quick = ctx.quick()
    r = vlib.tlc("MCOutput", "MCOutput.cfg" if quick else "MCOutput_thorough.cfg", workers=16, timeout=3000, xmx="16g")
    ctx.add_tlc(r, "MCOutput properties")
    if r.violation:
        ctx.violation("model:" + r.violation, "Output.tla violates %s" % r.violation, {"tlc": vlib.counterexample(r)})
        return
    ev = record(ctx, 40 if quick else 500, 14)
    r = vlib.validate_trace(ctx, "OutputTrace", "OutputTrace.cfg", ev, "output files")
    # correlation functions of vector-valued variables: coordinate / velocity / P2 (spec/Corr.tla)
    rc = vlib.tlc("MCCorr", "MCCorr.cfg" if quick else "MCCorr_thorough.cfg", workers=16, timeout=3000, xmx="16g")
    ctx.add_tlc(rc, "MCCorr properties")
    if rc.violation:
        ctx.violation("model:corr:" + rc.violation, "Corr.tla violates %s" % rc.violation, {"tlc": vlib.counterexample(rc)})
    evc = record_corr(ctx, 36 if quick else 480, 16)
    rt = vlib.validate_trace(ctx, "CorrTrace", "CorrTrace.cfg", evc, "correlation files", key="corr-trace-rejected")
    if rt is not None and "cross-correlation-of-other-variable-only" in rt.out:
        ctx.violation("cross-correlation-of-other-variable-only", "corrFuncWithColvar: the written correlation function between this variable x and another variable y is the "
                      "autocorrelation <y(t).y(t-k)> of the OTHER variable (with x(t)^2 at lag 0) instead of <x(t).y(t-k)>: colvar::calc_acf() stores and correlates cfcv->value() only", {})
    if r is not None and '"QUIRK"' in r.out:
        ctx.violation("stale-value-after-deleting-last-bias", "after the last bias of a variable is deleted the variable is inactive (C13 finding) and the trajectory file keeps printing its last computed value under later step numbers", {})


def replay(ctx, path):
    run(ctx)
