"""C18: distances, gradients and wrapping of variable values form a consistent metric.
spec/Metric.tla: exact sub-lattices of every value type (integers; periodic integers; axes and face diagonals of the
cube for unit vectors; the 48 elements of the binary octahedral group for quaternions) with distances and tangent
gradients as exact expressions in pi, sqrt(2), sqrt(3).  MCMetric checks the metric axioms on the specification's
functions for every pair and prints every case; each case is evaluated by the real colvarvalue / colvar functions."""
import json, math, random
import vlib

PI = math.pi
TOL = 1e-9


def pt(p):
    s = math.sqrt(p["s"])
    return [x / s for x in p["w"]]


def norm(v):
    return math.sqrt(sum(x * x for x in v))


def dot(u, v):
    return sum(x * y for x, y in zip(u, v))


def vclose(u, v, tol=TOL):
    return len(u) == len(v) and all(abs(x - y) <= tol * (1 + abs(y)) for x, y in zip(u, v))


def tangent(g, a):
    k = dot(g, a)
    return [x - k * y for x, y in zip(g, a)]


CVCFG = """colvar {
  name p%(P)d_%(ci)d
  distanceZ {
    main { atomNumbers 1 }
    ref { dummyAtom (0,0,0) }
    period %(P)d.0
    wrapAround %(c)d.0
  }
}
"""
CENTRES = [-3, 0, 1, 2]


def chunk(args):
    cases, seed = args
    out = []
    d = vlib.Drv()
    try:
        d.cmd(op="new", natoms=4)
        text = "".join(CVCFG % {"P": P, "ci": ci, "c": c} for P in (4, 6) for ci, c in enumerate(CENTRES))
        text += "colvar {\n  name dih\n  dihedral {\n    group1 { atomNumbers 1 }\n    group2 { atomNumbers 2 }\n    group3 { atomNumbers 3 }\n    group4 { atomNumbers 4 }\n  }\n}\n"
        r = d.cmd(op="config", text=text)
        if r.get("rc") != 0:
            return [("machinery", "metric configuration rejected: %s" % r.get("errtext"), None)]
        d.cmd(op="step", pos=[[1, 0, 0.5], [0, 0, 0], [0, 1, 0], [1, 1, 1]])
        for c in cases:
            bad = check_case(d, c)
            out.append(("ok", None, None) if not bad else ("mismatch", bad, c))
            if d.dead:
                out[-1] = ("mismatch", {"key": "crash", "what": "process died"}, c)
                break
    finally:
        d.close()
    return out


def check_case(d, c):
    ty = c["ty"]
    if ty in ("scalar", "vector3", "vector"):
        r = d.cmd(op="metric", ty=ty, a=[float(x) for x in c["a"]], b=[float(x) for x in c["b"]], lam=0.25)
        if r.get("op") != "metric":
            return {"key": "crash:" + ty, "what": str(r)[:200]}
        if abs(r["d2"] - c["d2"]) > TOL or abs(r["d2ba"] - c["d2"]) > TOL:
            return {"key": "dist2:" + ty, "what": "dist2 = %r / %r, specification %r" % (r["d2"], r["d2ba"], c["d2"])}
        if not vclose(r["grad"], c["grad"]):
            return {"key": "grad:" + ty, "what": "gradient %r, specification %r" % (r["grad"], c["grad"])}
        want = [0.75 * x + 0.25 * y for x, y in zip(c["a"], c["b"])]
        if not vclose(r["interp"], want):
            return {"key": "interp:" + ty, "what": "interpolation %r, specification %r" % (r["interp"], want)}
        return None
    if ty == "periodic":
        P, cc = c["P"], c["c"]
        name = "p%d_%d" % (P, CENTRES.index(cc))
        r = d.cmd(op="cvmetric", cv=name, a=float(c["a"]), b=float(c["b"]))
        if r.get("rc") != 0:
            return {"key": "crash:periodic", "what": str(r)[:200]}
        if abs(r["d2"] - c["d2"]) > TOL:
            return {"key": "dist2:periodic", "what": "dist2(%d, %d; period %d) = %r, specification %r" % (c["a"], c["b"], P, r["d2"], c["d2"])}
        if not c["cut"] and abs(r["lgrad"][0] - c["grad"]) > TOL:
            return {"key": "grad:periodic", "what": "dist2_lgrad(%d, %d; period %d) = %r, specification %r" % (c["a"], c["b"], P, r["lgrad"][0], c["grad"])}
        if c["cut"] and abs(abs(r["lgrad"][0]) - P) > TOL:
            return {"key": "grad:periodic", "what": "at half a period |dist2_lgrad| = %r, specification %r" % (r["lgrad"][0], P)}
        if abs(r["wrap"] - c["wrap"]) > TOL:
            return {"key": "wrap:periodic", "what": "wrap(%d; period %d, centre %d) = %r, specification %r" % (c["a"], P, cc, r["wrap"], c["wrap"])}
        # the dihedral component implements the same functions on its own (period 360, centre 0): scale the lattice by 360/P
        if cc == 0:
            k = 360.0 / P
            r = d.cmd(op="cvmetric", cv="dih", a=k * c["a"], b=k * c["b"])
            if abs(r["d2"] - k * k * c["d2"]) > 1e-7:
                return {"key": "dist2:dihedral", "what": "dihedral dist2(%g, %g) = %r, specification %r" % (k * c["a"], k * c["b"], r["d2"], k * k * c["d2"])}
            if not c["cut"] and abs(r["lgrad"][0] - k * c["grad"]) > 1e-7:
                return {"key": "grad:dihedral", "what": "dihedral dist2_lgrad(%g, %g) = %r, specification %r" % (k * c["a"], k * c["b"], r["lgrad"][0], k * c["grad"])}
            w = k * c["wrap"]
            if abs(r["wrap"] - w) > 1e-7 and not (abs(abs(w) - 180.0) < 1e-9 and abs(abs(r["wrap"]) - 180.0) < 1e-7):
                return {"key": "wrap:dihedral", "what": "dihedral wrap(%g) = %r, specification %r" % (k * c["a"], r["wrap"], w)}
        return None
    # angular types
    a, b = pt(c["a"]), pt(c["b"])
    lam = c["k"] / c["K"]
    r = d.cmd(op="metric", ty=ty, a=a, b=b, lam=lam)
    if r.get("op") != "metric":
        return {"key": "crash:" + ty, "what": str(r)[:200]}
    theta = c["n"] * PI / 12.0
    if abs(r["d2"] - theta * theta) > 1e-6 or abs(r["d2ba"] - theta * theta) > 1e-6:
        return {"key": "dist2:" + ty, "what": "dist2(%s, %s) = %r / %r, specification (%d pi/12)^2 = %r" % (a, b, r["d2"], r["d2ba"], c["n"], theta * theta)}
    # gradient projected on the tangent space at a
    sa, sb = c["a"]["s"], c["b"]["s"]
    if c["n"] == 0:
        want = [0.0] * len(a)
    elif ty == "unit" and c["n"] == 12:
        want = None     # antipodal points: the derivative does not exist
    elif ty == "quat" and c.get("cut"):
        want = None     # both geodesics are equally long: the derivative does not exist
    else:
        coef = -2.0 * theta / math.sin(theta)
        want = [coef * u / (sa * math.sqrt(sb)) for u in c["u"]]
    if want is not None:
        g = r["grad"]
        if any(x is None or x != x for x in g):
            return {"key": "grad-nan:%s:n=%d" % (ty, c["n"]), "what": "gradient of dist2(%s, %s) is not a number: %r" % (a, b, g)}
        tg = tangent(g, a)
        if not vclose(tg, want, 1e-7):
            return {"key": "grad:%s" % ty, "what": "tangent gradient of dist2(%s, %s) = %r, specification %r" % (a, b, tg, want)}
        # true derivative: central differences of the real dist2 along a tangent basis
        if c["n"] not in (0, 12) and not (ty == "quat" and c["n"] == 6):
            h = 1e-5
            for e in basis(a):
                ap = normalize([x + h * y for x, y in zip(a, e)])
                am = normalize([x - h * y for x, y in zip(a, e)])
                rp = d.cmd(op="metric", ty=ty, a=ap, b=b)
                rm = d.cmd(op="metric", ty=ty, a=am, b=b)
                fd = (rp["d2"] - rm["d2"]) / (2 * h)
                if abs(fd - dot(g, e)) > 1e-4:
                    return {"key": "derivative:%s" % ty, "what": "d dist2 / d a along %r at (%s, %s): finite difference %r, reported gradient %r" % (e, a, b, fd, dot(g, e))}
    # interpolation
    it = r.get("interp")
    if c["undef"]:
        return None     # the combination vanishes: undefined, any outcome that returns
    if it is None or any(x is None or x != x for x in it):
        return {"key": "interp-nan:%s" % ty, "what": "interpolate(%s, %s, %g) = %r" % (a, b, lam, it)}
    if abs(norm(it) - 1.0) > 1e-9:
        return {"key": "interp-norm:%s" % ty, "what": "interpolate(%s, %s, %g) = %r leaves the manifold (norm %r)" % (a, b, lam, it, norm(it))}
    lin = normalize([(1 - lam) * x + lam * y for x, y in zip(a, b)])
    if not vclose(it, lin, 1e-9):
        return {"key": "interp:%s" % ty, "what": "interpolate(%s, %s, %g) = %r, specification %r" % (a, b, lam, it, lin)}
    return None


def normalize(v):
    n = norm(v)
    return [x / n for x in v]


def basis(a):
    """Orthonormal basis of the tangent space at the unit vector a."""
    out = []
    for i in range(len(a)):
        e = [0.0] * len(a)
        e[i] = 1.0
        e = tangent(e, a)
        for o in out:
            k = dot(e, o)
            e = [x - k * y for x, y in zip(e, o)]
        if norm(e) > 1e-6:
            out.append(normalize(e))
    return out


def run(ctx):
    ctx.rule = ("cases = ordered pairs of lattice values of one type: integers -3..3 (scalar), {-1,0,2}^3 (3-vector), a 4x3 integer lattice (generic vector), integers -9..9 with period 4 or 6 and "
                "wrap centre in {-3,0,1,2} (periodic scalar, also scaled to the dihedral component), the 18 axis/face-diagonal unit vectors, the 48 binary-octahedral quaternions, "
                "with interpolation parameters k/4; non-trivial = a pair of distinct values")
    ctx.assumptions = [
        "for unit vectors and quaternions the statement 'true derivative' is decided on the lattice pairs by comparing the real gradient, projected on the tangent space, with the closed form of the specification and with central differences of the real dist2 (step 1e-5, tolerance 1e-4); generic points of the sphere are not enumerated",
        "at the cut locus (half a period; antipodal unit vectors; quaternions at a right angle) the derivative does not exist and only the distance is compared",
        "scripted and custom-function variables (their own periodic dist2 in colvar::dist2) cannot be configured in this build (no Tcl, no Lepton) and are not exercised",
    ]
    vlib.build()
    quick = ctx.quick()
    g = vlib.tlc("MCMetric", "MCMetric.cfg" if quick else "MCMetric_thorough.cfg", workers=8, timeout=3000)
    ctx.add_tlc(g, "MCMetric (metric axioms on every lattice pair + case generation)")
    if g.violation:
        ctx.violation("model:" + g.violation, "Metric.tla violates %s" % g.violation, {"tlc": vlib.counterexample(g)})
        return
    cases = g.beh
    random.Random(ctx.seed).shuffle(cases)
    for c in cases:
        if c["a"] != c["b"]:
            ctx.nontriv([c["ty"], c["a"], c["b"], c.get("P"), c.get("c"), c.get("k")])
    for c in cases[:3]:
        ctx.sample(c)

    def on(status, info, c):
        ctx.violation(info["key"], info["what"], {"case": c})
    vlib.replay_parallel(ctx, cases, chunk, on, "metric cases")


def replay(ctx, path):
    j = json.load(open(path))
    c = j["payload"].get("case")
    if c:
        vlib.build()
        for status, info, cc in chunk(([c], 0)):
            if status == "mismatch":
                ctx.violation(info["key"], info["what"], {"case": c})
