#!/usr/bin/env python3
"""Regenerates the module table of spec/README.md (everything above the table header is kept)."""
import glob, os, re
d = os.path.join(os.path.dirname(os.path.abspath(__file__)), "..", "spec")
readme = os.path.join(d, "README.md")
head = open(readme).read().split("| module |")[0]
rows = ["| module | first line of its header | extends | configurations |", "|---|---|---|---|"]
cfgs = sorted(os.path.basename(c) for c in glob.glob(os.path.join(d, "*.cfg")))
for f in sorted(glob.glob(os.path.join(d, "*.tla"))):
    name = os.path.basename(f)[:-4]
    txt = open(f).read()
    m = re.search(r"\(\*+\)?\s*\n?\(\*\s*(.*?)\s*\*\)", txt) or re.search(r"\(\*\s*(.*?)\s*\*\)", txt)
    first = re.sub(r"\s+", " ", m.group(1)).strip(" *") if m else ""
    ext = re.search(r"^EXTENDS\s+(.*)$", txt, re.M)
    mine = [c for c in cfgs if c == name + ".cfg" or c.startswith(name + "_") or re.match(re.escape(name) + r"\d*\.cfg$", c)]
    rows.append("| `%s.tla` | %s | %s | %s |" % (name, first.replace("|", "/")[:110], ext.group(1).strip() if ext else "", " ".join(mine)))
open(readme, "w").write(head + "\n".join(rows) + "\n")
print(len(rows) - 2, "modules")
