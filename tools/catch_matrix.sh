#!/bin/bash
# For every seeded change under /verif/seeded: apply it to /repo, run the owning property's quick check (and the checks named
# as extra arguments "ID:OTHER"), restore /repo, and write /verif/seeded/CATCH.md.  /repo must be clean; nothing else may use it meanwhile.
cd /verif
OUT=seeded/CATCH.md
echo "| change | check | exit | first report |" > $OUT.tmp
echo "|---|---|---|---|" >> $OUT.tmp
declare -A EXTRA=( [C08-m2]="C07" )
for d in seeded/C*-m*/; do
  n=$(basename $d); id=${n%%-*}
  for chk in $id ${EXTRA[$n]}; do
    git -C /repo apply /verif/$d/patch.diff || { echo "| $n | $chk | patch does not apply | |" >> $OUT.tmp; continue; }
    ./check $chk --tier quick > /tmp/cm_out.txt 2> /tmp/cm_err.txt; rc=$?
    git -C /repo checkout -- .
    first=$(grep -A1 '^VIOLATION' /tmp/cm_out.txt | grep 'key=' | head -1 | cut -c1-160 | tr '|' '/')
    [ $rc -eq 2 ] && first="MACHINERY: $(grep MACHINERY /tmp/cm_err.txt | head -1 | cut -c1-160 | tr '|' '/')"
    echo "| $n | $chk | $rc | $first |" >> $OUT.tmp
    echo "$n $chk rc=$rc"
  done
done
mv $OUT.tmp $OUT
git -C /repo status --short | grep -v _build
