#!/opt/veriftools/pyvenv/bin/python
import json, sys, glob, jsonschema
jsonschema.validate(json.load(open('/verif/MANIFEST.json')), json.load(open('/root/.vp/MANIFEST.schema.json')))
print('manifest valid')
s = json.load(open('/root/.vp/EVIDENCE.schema.json'))
for f in sorted(glob.glob('/verif/evidence/*.json')):
    jsonschema.validate(json.load(open(f)), s); print('valid', f)
