# Source of MANIFEST.json (tools/mkmanifest.py).  One entry per claimed property.
HOOK_COMMITS = []
NOTES = "Model-based verification with explicit TLA+ specifications (spec/), TLC, and conformance checks in both directions; see DESIGN.md."
NOT_APPLICABLE = {}
CHECKS = {}

CHECKS["C04"] = dict(
    technique="TLA+ spec (Abf.tla: ABF mechanism vs. history-based property) model-checked with TLC; TLC-generated behaviours replayed into the real library; recorded executions validated by TLC against AbfTrace.tla",
    text="TLC exhaustively checks, for every parameter record (force-timing convention, subtractAppliedForce, another bias on the variable, ramp, cap, periodic zero-mean, applyBias, stepZeroData) and every history of bins/system forces/run boundaries/restarts up to the bound, that the implementation-shaped ABF mechanism yields exactly the per-bin counts and sums the history prescribes and the documented applied force. Conformance: every depth-3 behaviour class (sampled in the quick tier) and random deeper behaviours are replayed into the real code comparing samples, gradients, variable force, atom force and total force after every call; seeded random executions of the real code are validated event by event against the spec (all invariants evaluated on every recorded state).",
    note="Trusted: TLC; the engine simulator's force-timing model; one scalar variable (distanceZ of one atom) so geometry is the identity; observation of the count/gradient grids through the saved state text. Bounds: 3-4 bins, <= 6 steps exhaustive (9-14 in simulation / recorded runs), <= 3 runs. Multi-dimensional ABF, eABF/CZAR and hideJacobian with a non-zero Jacobian are not covered by this check.",
)


CHECKS["C05"] = dict(
    technique="TLA+ spec (Meta.tla: hill list / pending iterator / off-grid list / grids vs. history of deposited hills) model-checked with TLC using exact dyadic Gaussians; behaviours replayed into the real library; recorded executions validated by TLC against MetaTrace.tla",
    text="TLC exhaustively checks over all position histories on a half-bin lattice (including excursions beyond both boundaries), hill and grid frequencies, wide/narrow hills, grids on/off, keepHills, hard boundary, periodic variable, run boundaries and restarts, that the code-shaped mechanism reports exactly the sum of the hills prescribed by the schedule (tabulated ones at the bin centre, pending and off-grid ones analytically) - except where one of four named deviations of the unchanged tree is applicable, whose scope is itself an invariant. Conformance: replayed behaviours must reproduce the mechanism's energy, variable force and atom force at every call; recorded random executions are validated event by event.",
    note="Trusted: TLC; dyadic-Gaussian lattice (sigma = 1/sqrt(8 ln 2) bins, closing factors applied by the harness); one scalar variable, hillWeight 1. Not covered here: well-tempered/ebMeta weights, expandBoundaries, rebinGrids, multi-dimensional and non-scalar variables. Known findings (offgrid-double-count, offgrid-buffer, restart-offgrid-hills-lost, restart-nogrid-hills-lost) are reproduced by the real code and reported as KNOWN-FINDING.",
)
