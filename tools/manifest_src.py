# Source of MANIFEST.json (tools/mkmanifest.py).  One entry per claimed property.
HOOK_COMMITS = []
NOTES = "Model-based verification with explicit TLA+ specifications (spec/), TLC, and conformance checks in both directions; see DESIGN.md."
NOT_APPLICABLE = {}
CHECKS = {}
