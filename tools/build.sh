#!/bin/bash
# Build libcolvars.a (from /repo's current working tree, hooks on) and the harness.
# usage: tools/build.sh [plain|asan|tsan]
set -e
FLAV=${1:-plain}
REPO=${VERIF_REPO:-/repo}
ROOT=$(cd "$(dirname "$0")/.." && pwd)
B=$ROOT/.cache/build-$FLAV
mkdir -p "$ROOT/.cache"
exec 9>"$ROOT/.cache/build-$FLAV.lock"
flock 9
case $FLAV in
  plain) CXX=g++; FLAGS="-O1 -DCOLVARS_VERIF"; OMP=ON;;
  asan)  CXX=g++; FLAGS="-O1 -g -DCOLVARS_VERIF -fsanitize=address,undefined -fno-omit-frame-pointer -fno-sanitize-recover=undefined"; OMP=ON;;
  tsan)  CXX=clang++; FLAGS="-O1 -g -DCOLVARS_VERIF -fsanitize=thread"; OMP=OFF;;
  *) echo "unknown flavour $FLAV" >&2; exit 2;;
esac
# the source dir is recorded so that a different VERIF_REPO forces a reconfigure
if [ ! -f "$B/build.ninja" ] || [ "$(cat $B/.srcdir 2>/dev/null)" != "$REPO" ]; then
  rm -rf "$B"; mkdir -p "$B"
  cmake -G Ninja -S "$REPO/cmake" -B "$B/lib" -DCMAKE_CXX_COMPILER=$CXX -DCMAKE_BUILD_TYPE=None \
    -DBUILD_TESTS=OFF -DBUILD_TOOLS=OFF -DBUILD_UNITTESTS=OFF -DCOLVARS_OPENMP=$OMP -DCOLVARS_LEPTON=OFF \
    -DCMAKE_CXX_FLAGS="$FLAGS -w" > "$B/cmake.log" 2>&1 || { cat "$B/cmake.log"; exit 2; }
  echo "$REPO" > "$B/.srcdir"; touch "$B/build.ninja"
fi
# re-glob sources (cmake file(GLOB) is evaluated at configure time)
NSRC=$(ls "$REPO"/src/*.cpp | wc -l)
if [ "$(cat $B/.nsrc 2>/dev/null)" != "$NSRC" ]; then cmake "$B/lib" > /dev/null; echo $NSRC > "$B/.nsrc"; fi
cmake --build "$B/lib" -j16 > "$B/build.log" 2>&1 || { tail -50 "$B/build.log"; exit 2; }
# harness
LINK="-fopenmp"; [ $OMP = OFF ] && LINK="-pthread"
shopt -s nullglob
for src in "$ROOT"/harness/*.cpp; do
  exe=$B/$(basename "$src" .cpp)
  if [ ! -x "$exe" ] || [ "$src" -nt "$exe" ] || [ "$B/lib/libcolvars.a" -nt "$exe" ] || [ -n "$(find "$ROOT/harness" -name '*.h' -newer "$exe" 2>/dev/null)" ]; then
    echo "$src"
  fi
done > "$B/todo.txt"
if [ -s "$B/todo.txt" ]; then
  cat "$B/todo.txt" | xargs -P 16 -I{} sh -c "$CXX -std=c++17 $FLAGS -w -I$REPO/src -I$ROOT/harness {} $B/lib/libcolvars.a $LINK -o $B/\$(basename {} .cpp).tmp && mv $B/\$(basename {} .cpp).tmp $B/\$(basename {} .cpp)" || { echo "harness build failed" >&2; exit 2; }
fi
echo "$B"
