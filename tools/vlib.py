"""Shared machinery of the check driver: build, implementation driver, TLC runner, evidence.
python3 stdlib only."""
import json, os, re, subprocess, sys, time, shutil, signal, random, hashlib, glob

ROOT = os.path.dirname(os.path.dirname(os.path.abspath(__file__)))
CACHE = os.path.join(ROOT, ".cache")
REPO = os.environ.get("VERIF_REPO", "/repo")
SPEC = os.path.join(ROOT, "spec")
JAR = "/opt/veriftools/tla/tla2tools.jar:/opt/veriftools/tla/CommunityModules-deps.jar"


class MachineryError(Exception):
    pass


# --------------------------------------------------------------------------- build

_built = {}


def build(flavour="plain"):
    if flavour in _built:
        return _built[flavour]
    t0 = time.time()
    p = subprocess.run([os.path.join(ROOT, "tools", "build.sh"), flavour], capture_output=True, text=True,
                       env=dict(os.environ, VERIF_REPO=REPO))
    if p.returncode != 0:
        sys.stderr.write(p.stdout[-4000:] + p.stderr[-4000:])
        raise MachineryError("build failed (flavour %s)" % flavour)
    d = p.stdout.strip().splitlines()[-1]
    _built[flavour] = d
    log("build %s: %.1fs" % (flavour, time.time() - t0))
    return d


def log(msg):
    sys.stderr.write("[check] %s\n" % msg)
    sys.stderr.flush()


# --------------------------------------------------------------------------- implementation driver

class Drv:
    """One simdrv process; cmd() sends a JSON command and returns the JSON reply.
    If the process dies, returns {"op":"died","signal":n} and stays dead."""

    def __init__(self, flavour="plain", cwd=None, env=None, exe="simdrv", timeout=20, preexec=None):
        d = build(flavour)
        self._own_cwd = None
        if cwd is None:
            # never let the library write its output files into /verif itself
            import uuid
            cwd = os.path.join(CACHE, "run", "drv-%d-%s" % (os.getpid(), uuid.uuid4().hex[:8]))
            os.makedirs(cwd, exist_ok=True)
            self._own_cwd = cwd
        e = dict(os.environ)
        e.setdefault("OMP_NUM_THREADS", "1")
        e["ASAN_OPTIONS"] = "detect_leaks=0:abort_on_error=1"
        e["UBSAN_OPTIONS"] = "halt_on_error=1:abort_on_error=1"
        if env:
            e.update({k: v for k, v in env.items() if k != "_fds"})
        self.p = subprocess.Popen([os.path.join(d, exe)], stdin=subprocess.PIPE, stdout=subprocess.PIPE,
                                  stderr=subprocess.PIPE if flavour != "plain" else subprocess.DEVNULL,
                                  cwd=cwd, env=e, text=True, bufsize=1, pass_fds=(env or {}).get("_fds", ()), preexec_fn=preexec)
        self.dead = None
        self.timeout = timeout
        self.flavour = flavour

    def cmd(self, **c):
        return self.send(c)

    def send(self, c):
        if self.dead:
            return self.dead
        try:
            self.p.stdin.write(json.dumps(c) + "\n")
            self.p.stdin.flush()
            line = self._readline()
        except (BrokenPipeError, OSError):
            line = ""
        if not line and self.dead:
            return self.dead
        if not line:
            rc = None
            try:
                rc = self.p.wait(timeout=5)
            except Exception:
                self.p.kill()
                rc = self.p.wait()
            err = ""
            if self.p.stderr:
                try:
                    err = self.p.stderr.read()[-3000:]
                except Exception:
                    pass
            self.dead = {"op": "died", "signal": -rc if rc is not None and rc < 0 else 0, "rc": rc, "stderr": err}
            return self.dead
        try:
            return json.loads(line)
        except ValueError:
            raise MachineryError("driver wrote a non-JSON line: %r (command %r)" % (line[:300], str(c)[:300]))

    def post(self, c):
        """Send a command without waiting for the reply (collective operations that block until peers act)."""
        if self.dead:
            return
        try:
            self.p.stdin.write(json.dumps(c) + "\n")
            self.p.stdin.flush()
        except (BrokenPipeError, OSError):
            pass

    def ready(self, timeout=0.0):
        import select
        r, _, _ = select.select([self.p.stdout], [], [], timeout)
        return bool(r)

    def collect(self):
        """Reply to an earlier post()."""
        if self.dead:
            return self.dead
        try:
            line = self._readline()
        except (BrokenPipeError, OSError):
            line = ""
        if not line:
            if not self.dead:
                rc = None
                try:
                    rc = self.p.wait(timeout=5)
                except Exception:
                    self.p.kill()
                    rc = self.p.wait()
                self.dead = {"op": "died", "signal": -rc if rc is not None and rc < 0 else 0, "rc": rc}
            return self.dead
        return json.loads(line)

    def _readline(self):
        # watchdog through alarm-less polling: use select on the pipe
        import select
        t_end = time.time() + self.timeout
        fd = self.p.stdout
        while True:
            r, _, _ = select.select([fd], [], [], max(0.0, t_end - time.time()))
            if r:
                return fd.readline()
            if time.time() >= t_end:
                self.p.kill()
                self.p.wait()
                self.dead = {"op": "died", "signal": 0, "rc": None, "timeout": True}
                raise BrokenPipeError()

    def close(self):
        self.stderr_text = ""
        if self.p.poll() is None:
            try:
                self.p.stdin.write('{"op":"quit"}\n')
                self.p.stdin.flush()
                self.p.wait(timeout=5)
            except Exception:
                self.p.kill()
        for f in (self.p.stdin, self.p.stdout, self.p.stderr):
            try:
                if f:
                    f.close()
            except Exception:
                pass
        if self._own_cwd:
            shutil.rmtree(self._own_cwd, ignore_errors=True)
            self._own_cwd = None


def run_batch(lines, flavour="plain", cwd=None, timeout=600, exe="simdrv", env=None):
    """Run a whole command list through one simdrv process; returns list of replies."""
    d = build(flavour)
    e = dict(os.environ)
    e.setdefault("OMP_NUM_THREADS", "1")
    if env:
        e.update(env)
    inp = "\n".join(json.dumps(c) for c in lines) + "\n"
    p = subprocess.run([os.path.join(d, exe)], input=inp, capture_output=True, text=True, cwd=cwd, timeout=timeout, env=e)
    out = [json.loads(l) for l in p.stdout.splitlines() if l.strip()]
    if p.returncode != 0:
        out.append({"op": "died", "rc": p.returncode, "signal": -p.returncode if p.returncode < 0 else 0,
                    "stderr": p.stderr[-3000:]})
    return out


# --------------------------------------------------------------------------- TLC

class TlcResult:
    def __init__(self):
        self.rc = None
        self.out = ""
        self.generated = 0
        self.distinct = 0
        self.violation = None   # name of violated invariant / property, or "deadlock"
        self.error = None       # machinery error text
        self.coverage = {}      # action -> (taken, generated)
        self.beh = []           # JSON payloads printed by the spec with PrintT(<<"BEH", json>>)
        self.wall = 0.0
        self.cmd = ""
        self.depth = 0
        self.vacuous = False


def _tlc_raw(module, cfg=None, workers=8, simulate=None, depth=None, env=None, timeout=600, coverage=False,
        specdir=None, deadlock=False, xmx="8g", seed=None, dfs=False, extra=None):
    """Run TLC on spec/<module>.tla with spec/<cfg>. Returns TlcResult."""
    specdir = specdir or SPEC
    res = TlcResult()
    import uuid
    meta = os.path.join(CACHE, "tlc", "%s-%d-%s" % (module, os.getpid(), uuid.uuid4().hex[:12]))
    os.makedirs(meta, exist_ok=True)
    jopts = "-Xss256m"
    if dfs:
        jopts += " -Dtlc2.tool.queue.IStateQueue=StateDeque"
    e = dict(os.environ, JAVA_TOOL_OPTIONS=jopts)
    if env:
        e.update({k: str(v) for k, v in env.items()})
    cmd = ["java", "-XX:+UseParallelGC", "-Xmx" + xmx, "-cp", JAR, "tlc2.TLC", "-workers", str(workers),
           "-metadir", meta, "-noGenerateSpecTE"]
    if cfg:
        cmd += ["-config", cfg]
    if not deadlock:
        cmd += ["-deadlock"]
    if coverage:
        cmd += ["-coverage", "1"]
    if simulate:
        cmd += ["-simulate", "num=%d" % simulate]
        if seed is not None:
            cmd += ["-seed", str(seed)]
    if depth:
        cmd += ["-depth", str(depth)]
    if extra:
        cmd += extra
    cmd += [module]
    res.cmd = "cd spec && JAVA_TOOL_OPTIONS='%s' %s" % (jopts, " ".join(cmd))
    t0 = time.time()
    try:
        p = subprocess.run(cmd, cwd=specdir, env=e, capture_output=True, text=True, timeout=timeout)
        res.rc = p.returncode
        res.out = p.stdout + p.stderr
    except subprocess.TimeoutExpired as ex:
        res.rc = 124
        res.out = (ex.stdout or b"").decode() if isinstance(ex.stdout, bytes) else (ex.stdout or "")
        res.error = "timeout"
    res.wall = time.time() - t0
    shutil.rmtree(meta, ignore_errors=True)
    m = None
    for m in re.finditer(r"(\d+) states generated, (\d+) distinct states found", res.out):
        pass
    if m:
        res.generated, res.distinct = int(m.group(1)), int(m.group(2))
    m = re.search(r"The depth of the complete state graph search is (\d+)", res.out)
    if m:
        res.depth = int(m.group(1))
    m = re.search(r"Invariant (\S+) is violated", res.out)
    if m:
        res.violation = m.group(1)
    elif re.search(r"Action property (\S+) is violated", res.out):
        res.violation = re.search(r"Action property (\S+) is violated", res.out).group(1)
    elif "Temporal properties were violated" in res.out:
        res.violation = "temporal"
    elif "Deadlock reached" in res.out:
        res.violation = "deadlock"
    elif re.search(r"Postcondition (\S+) .*is false", res.out):
        res.violation = "postcondition"
        res.vacuous = True
    if res.rc not in (0, 12, 13) and not res.violation and not res.error:
        res.error = "tlc exit %s" % res.rc
    # BEH lines: printed as <<"BEH", "json...">>
    for m in re.finditer(r'^<<"BEH", "(.*)">>$', res.out, re.M):
        s = m.group(1).encode().decode("unicode_escape")
        try:
            res.beh.append(json.loads(s))
        except Exception:
            pass
    if coverage:
        for m in re.finditer(r"<(\w+) line \d+, col \d+ to line \d+, col \d+ of module (\w+)>: (\d+):(\d+)", res.out):
            res.coverage[m.group(1)] = (int(m.group(3)), int(m.group(4)))
    return res


def tlc(module, cfg=None, **kw):
    """Run TLC; when the configuration carries the marker line '\\* vacuity: on' and the run found no violation,
    search a state satisfying each Witness<i> of the module (one extra TLC run per witness, in parallel, each expected to
    violate NoWitness<i>).  A witness that is never found marks the result as vacuous."""
    res = _tlc_raw(module, cfg, **kw)
    specdir = kw.get("specdir") or SPEC
    if res.error or res.violation or not cfg:
        return res
    cfgtxt = open(os.path.join(specdir, cfg)).read()
    if "vacuity: on" not in cfgtxt:
        return res
    modtxt = open(os.path.join(specdir, module + ".tla")).read()
    names = sorted(set(re.findall(r"^(NoWitness\d+) ==", modtxt, re.M)))
    if not names:
        return res
    import threading
    base = re.sub(r"(?m)^INVARIANTS?.*\n(?:[ \t]+\S.*\n)*", "", cfgtxt)
    missing = []
    lock = threading.Lock()

    def one(nm):
        path = os.path.join(specdir, ".wit_%s_%s_%d.cfg" % (module, nm, os.getpid()))
        open(path, "w").write(base + "INVARIANT %s\n" % nm)
        try:
            k2 = dict(kw)
            k2["workers"] = 4
            k2["coverage"] = False
            k2.pop("simulate", None)
            r = _tlc_raw(module, os.path.basename(path), **k2)
        finally:
            try:
                os.remove(path)
            except OSError:
                pass
        with lock:
            if r.violation != nm:
                missing.append(nm + ((" (" + (r.error or "no state found") + ")")))
    ths = [threading.Thread(target=one, args=(nm,)) for nm in names]
    for t in ths:
        t.start()
    for t in ths:
        t.join()
    res.witnesses = len(names)
    if missing:
        res.vacuous = True
        res.missing = missing
    return res


def require_ok(res, what):
    """Raise MachineryError if TLC itself failed (parse error etc.)."""
    if res.error:
        sys.stderr.write(res.out[-3000:])
        raise MachineryError("%s: %s" % (what, res.error))


def counterexample(res):
    """Extract the textual error trace from a TLC output."""
    i = res.out.find("Error:")
    return res.out[i:i + 20000] if i >= 0 else res.out[-5000:]


# --------------------------------------------------------------------------- lattice helpers

def on_lattice(x, scale, tol=1e-9):
    """Return the integer n with x = n/scale, or None when x is off the lattice."""
    n = round(x * scale)
    if abs(x - n / scale) <= tol * max(1.0, abs(x)):
        return int(n)
    return None


def lat(x, scale, tol=1e-9):
    n = on_lattice(x, scale, tol)
    if n is None or abs(n) > 2**30:
        return {"offlattice": repr(x)}
    return n


def close(a, b, tol=1e-9):
    return abs(a - b) <= tol * max(1.0, abs(a), abs(b))


# --------------------------------------------------------------------------- known findings

def known_findings():
    path = os.path.join(ROOT, "known_findings.txt")
    out = {}
    if os.path.exists(path):
        for line in open(path):
            line = line.strip()
            if line.startswith("finding:"):
                m = re.match(r"finding:\s+property=(\S+)\s+key=(\S+)\s*(.*)", line)
                if m:
                    out[(m.group(1), m.group(2))] = m.group(3)
    return out


# --------------------------------------------------------------------------- check context

# invariants that are violated on purpose: the "full property" runs that exhibit a named deviation of the unchanged tree
EXPECTED_MODEL_VIOLATIONS = {"ExactlyOnceFull", "CompleteFull", "Inv2", "NoLoss", "ScheduleFull", "SomeComplete"}


class Ctx:
    def __init__(self, pid, tier, seed):
        self.pid = pid
        self.tier = tier
        self.seed = seed
        self.rng = random.Random(seed)
        self.t0 = time.time()
        self.states = 0
        self.transitions = 0
        self.traces = 0
        self.evaluations = 0
        self.nontrivial = set()
        self.samples = []
        self.cmds = []
        self.exhaustive = True
        self.violations = []    # (key, description, replay payload)
        self.known_hit = {}
        self.assumptions = []
        self.trusted = ["TLC 1.8.0 (tla2tools.jar)", "harness/simproxy.h engine simulator", "tools/vlib.py glue (scaling to lattice integers, JSON)"]
        self.rule = ""
        self.notes = []
        self.extra = {}
        self.kf = known_findings()
        self.unhandled_model = []
        self.workdir = os.path.join(CACHE, "run", "%s-%d" % (pid, os.getpid()))
        os.makedirs(self.workdir, exist_ok=True)

    def quick(self):
        return self.tier == "quick"

    def add_tlc(self, res, what="", exhaustive=True):
        require_ok(res, what or "tlc")
        if res.vacuous:
            raise MachineryError("%s: vacuity gate failed: no reachable state satisfies %s - the bounded model never exercised an antecedent" % (what, getattr(res, "missing", "?")))
        self.states += res.distinct
        self.transitions += res.generated
        self.cmds.append(res.cmd)
        if not exhaustive:
            self.exhaustive = False
        log("%s: %d generated, %d distinct, %.1fs%s" % (what, res.generated, res.distinct, res.wall,
                                                        (" VIOLATED " + res.violation) if res.violation else ""))
        # a violated invariant in a run that is not one of the deliberate "full property" runs must never go unnoticed
        # (a generation run would just stop early and yield fewer behaviours)
        if res.violation and res.violation not in EXPECTED_MODEL_VIOLATIONS:
            self.unhandled_model.append((what, res.violation, counterexample(res)[-1500:]))

    def sample(self, s):
        if len(self.samples) < 4:
            self.samples.append(s)

    def nontriv(self, key):
        self.nontrivial.add(key if isinstance(key, str) else json.dumps(key, sort_keys=True))

    def violation(self, key, desc, payload):
        """Report a deviation; key identifies the class of failing input for known_findings matching."""
        if (self.pid, key) in self.kf:
            if key not in self.known_hit:
                self.known_hit[key] = desc
            return
        self.violations.append((key, desc, payload))

    def finish(self):
        for what, inv, cex in self.unhandled_model:
            if not any(inv in key or inv in desc for key, desc, _ in self.violations):
                self.violations.append(("model:" + inv, "%s: TLC reports invariant %s violated" % (what, inv), {"tlc": cex}))
        wall = time.time() - self.t0
        os.makedirs(os.path.join(ROOT, "evidence", "replays"), exist_ok=True)
        for key, desc in self.known_hit.items():
            print("KNOWN-FINDING: property=%s key=%s %s" % (self.pid, key, desc))
        replay_paths = []
        for i, (key, desc, payload) in enumerate(self.violations[:5]):
            path = os.path.join(ROOT, "evidence", "replays", "%s-%s-%d.json" % (self.pid, re.sub(r"\W+", "_", key)[:40], i))
            with open(path, "w") as f:
                json.dump({"property": self.pid, "key": key, "description": desc, "payload": payload}, f, indent=1, default=str)
            replay_paths.append(path)
            print("VIOLATION property=%s replay=%s" % (self.pid, path))
            print("  key=%s %s" % (key, desc))
        cov = {
            "states": max(self.states, 0),
            "transitions": max(self.transitions, 0),
            "traces_validated_against_impl": self.traces,
            "evaluations": self.evaluations,
            "distinct_nontrivial": len(self.nontrivial),
            "rule": self.rule,
            "samples": self.samples if self.samples else ["(none)"],
            "exhaustive": bool(self.exhaustive),
            "checker_cmd": " ;; ".join(self.cmds[:6]),
            "trusted_base": self.trusted,
            "known_findings_hit": sorted(self.known_hit.keys()),
        }
        cov.update(self.extra)
        ev = {
            "property_id": self.pid, "tier": self.tier, "seed": self.seed, "level": "model_checking",
            "coverage": cov, "assumptions": self.assumptions, "wall_s": round(wall, 2),
            "violations": len(self.violations),
        }
        with open(os.path.join(ROOT, "evidence", "%s.json" % self.pid), "w") as f:
            json.dump(ev, f, indent=1, default=str)
        shutil.rmtree(self.workdir, ignore_errors=True)
        log("%s %s: states=%d transitions=%d traces=%d evals=%d nontrivial=%d violations=%d known=%d wall=%.1fs" % (
            self.pid, self.tier, self.states, self.transitions, self.traces, self.evaluations, len(self.nontrivial),
            len(self.violations), len(self.known_hit), wall))
        return 1 if self.violations else 0


def write_ndjson(path, events):
    with open(path, "w") as f:
        for e in events:
            f.write(json.dumps(e, separators=(",", ":")) + "\n")


def parallel_map(fn, items, nproc=16):
    """Fork-based parallel map (stdlib multiprocessing)."""
    import multiprocessing as mp
    if len(items) <= 1 or nproc <= 1:
        return [fn(x) for x in items]
    with mp.get_context("fork").Pool(min(nproc, len(items))) as pool:
        return pool.map(fn, items, chunksize=max(1, len(items) // (nproc * 4)))


def replay_parallel(ctx, behs, chunk_fn, on_result, what, n=16):
    """chunk_fn((behaviours, seed)) -> list of (status, info, beh) with status in ok|mismatch|machinery|known.
    on_result(status, info, beh) is called in the parent for every non-ok result."""
    chunks = [(behs[i::n], ctx.seed * 1000 + i) for i in range(n) if behs[i::n]]
    results = parallel_map(chunk_fn, chunks, n)
    nbad = 0
    for chunk in results:
        for status, info, beh in chunk:
            ctx.evaluations += 1
            ctx.traces += 1
            if status == "ok":
                continue
            if status == "machinery":
                raise MachineryError(str(info))
            nbad += 1
            on_result(status, info, beh)
    log("%s: replayed %d behaviours, %d not ok" % (what, len(behs), nbad))
    return nbad


def validate_trace(ctx, module, cfg, events, what, env=None, nexec=None, key="trace-rejected", quiet=False):
    """Generic trace validation: write events, run TLC on the trace spec; accepted iff invariant NotAccepted is
    violated.  The trace spec prints <<"MAXL", l>> on every state."""
    for i, e in enumerate(events):
        if "offlattice" in json.dumps(e):
            ctx.violation("trace-offlattice", "%s: event %d carries a value that is not on the lattice the specification prescribes: %s" % (what, i + 1, json.dumps(e)[:600]),
                          {"events": events[max(0, i - 6):i + 1]})
            return None
    import uuid
    path = os.path.join(ctx.workdir, "%s_%d_%s.ndjson" % (module, len(events), uuid.uuid4().hex[:8]))
    write_ndjson(path, events)
    e = {"TRACE": path}
    if env:
        e.update(env)
    r = tlc(module, cfg, workers=1, env=e, timeout=1800)
    require_ok(r, module)
    ctx.states += r.distinct
    ctx.transitions += r.generated
    ctx.cmds.append(r.cmd)
    if nexec is None:
        nexec = sum(1 for ev in events if ev.get("e") == "Reset" or ev.get("op") == "Reset")
    ml = [int(x) for x in re.findall(r'"MAXL", (\d+)', r.out)]
    l = max(ml) if ml else 0
    if r.violation:
        ctx.violation("trace-invariant:" + r.violation, "%s: invariant %s of the specification is violated on a recorded execution (event %d)" % (what, r.violation, l - 1),
                      {"events": events[max(0, l - 8):l], "tlc": counterexample(r)[-3000:]})
        return r
    if l == len(events) + 1:
        ctx.traces += nexec
        ctx.evaluations += len(events)
        if not quiet:
            log("%s: %d recorded executions (%d events) accepted by %s" % (what, nexec, len(events), module))
        r.accepted = True
        return r
    r.accepted = False
    r.stuck_at = l
    bad = events[l - 1] if 0 < l <= len(events) else None
    if key is None:
        return r        # the caller localises and reports the rejection (r.accepted is False, r.stuck_at the event)
    ctx.violation(key, "%s: event %d is not a step of the specification: %s" % (what, l, json.dumps(bad)[:800]),
                  {"events": events[max(0, l - 8):l + 1], "index": l})
    return r
