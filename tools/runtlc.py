import sys; sys.path.insert(0,'/verif/tools')
import vlib
mod, cfg = sys.argv[1], sys.argv[2]
kw = {}
for a in sys.argv[3:]:
    k, v = a.split('=')
    kw[k] = int(v) if v.isdigit() else (v == 'True' if v in ('True','False') else v)
tail = kw.pop('tail', 5000)
r = vlib.tlc(mod, cfg, workers=kw.pop('workers', 16), timeout=kw.pop('timeout', 900), **kw)
print(r.rc, r.generated, r.distinct, r.violation, r.error, round(r.wall,1), 'beh', len(r.beh))
import re
out = re.sub(r'^<<"BEH".*\n', '', r.out, flags=re.M)
print(out[-tail:])
