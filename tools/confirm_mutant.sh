#!/bin/bash
# usage: tools/confirm_mutant.sh <agent out dir (with patch.diff, demo.sh/demo.cpp)> <name e.g. C04-m1> <property>
# Confirms in a scratch worktree of /repo (pristine HEAD~fixes are included) that the patch applies, builds,
# passes the test suite, that the demo fails with it and passes without; then stores it under /verif/seeded/<name>/.
SRC=$1; NAME=$2; PROP=$3
WT=/tmp/confirm_$NAME
LOG=/tmp/confirm_$NAME.log
exec > $LOG 2>&1
set -x
git -C /repo worktree add --detach $WT HEAD || exit 3
cd $WT
git apply $SRC/patch.diff || { echo "RESULT apply-failed"; git -C /repo worktree remove --force $WT; exit 3; }
cmake -G Ninja -S cmake -B _build -DCMAKE_BUILD_TYPE=Release -DCMAKE_CXX_FLAGS="-Wno-error -O1" -DBUILD_TESTS=ON -DBUILD_UNITTESTS=ON -DBUILD_TOOLS=ON > /dev/null
cmake --build _build -j8 > build.log 2>&1 || { echo "RESULT build-failed"; tail build.log; git -C /repo worktree remove --force $WT; exit 3; }
ctest --test-dir _build -j8 --timeout 900 > ctest.log 2>&1
PASSED=$(grep -c "Passed" ctest.log); FAILED=$(grep "tests failed" ctest.log)
echo "ctest with mutant: $FAILED"
cp -r $SRC demo_dir
if [ -f demo_dir/demo.sh ]; then (cd demo_dir && COLVARS_SRC_ROOT=$WT timeout 600 bash demo.sh > demo_mut.log 2>&1; echo $? > rc_mut)
else (cd demo_dir && g++ -std=c++17 -O1 -I $WT/src -I $WT/misc_interfaces/stubs demo.cpp $WT/misc_interfaces/stubs/colvarproxy_stub.cpp $WT/_build/libcolvars.a -fopenmp -o demo && timeout 600 ./demo > demo_mut.log 2>&1; echo $? > rc_mut); fi
git apply -R $SRC/patch.diff
cmake --build _build -j8 > build2.log 2>&1
if [ -f demo_dir/demo.sh ]; then (cd demo_dir && COLVARS_SRC_ROOT=$WT timeout 600 bash demo.sh > demo_base.log 2>&1; echo $? > rc_base)
else (cd demo_dir && g++ -std=c++17 -O1 -I $WT/src -I $WT/misc_interfaces/stubs demo.cpp $WT/misc_interfaces/stubs/colvarproxy_stub.cpp $WT/_build/libcolvars.a -fopenmp -o demo && timeout 600 ./demo > demo_base.log 2>&1; echo $? > rc_base); fi
RCM=$(cat demo_dir/rc_mut); RCB=$(cat demo_dir/rc_base)
NP=$(grep -c " Passed" ctest.log)
echo "RESULT name=$NAME tests_passed=$NP demo_rc_with_mutant=$RCM demo_rc_without=$RCB"
if [ "$NP" = "92" ] && [ "$RCM" != "0" ] && [ "$RCB" = "0" ]; then
  D=/verif/seeded/$NAME; mkdir -p $D
  cp $SRC/patch.diff $D/; cp $SRC/demo.* $D/ 2>/dev/null; cp $SRC/notes.md $D/ 2>/dev/null
  cat > $D/meta.json <<EOM
{"property": "$PROP", "name": "$NAME", "origin": "independent sub-agent given only the property text and a scratch worktree",
 "confirmed": {"tests_passed_with_change": $NP, "demo_exit_with_change": $RCM, "demo_exit_without_change": $RCB,
  "how": "tools/confirm_mutant.sh: scratch worktree of /repo HEAD, git apply, cmake build, ctest -j8 (92 pass; customfunction_harmonic-fixed always fails), demo built and run; patch reversed, rebuilt, demo run again"},
 "needs_to_manifest": "see notes.md"}
EOM
  echo CONFIRMED
else echo NOT-CONFIRMED; fi
cd /; git -C /repo worktree remove --force $WT
