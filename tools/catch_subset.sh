#!/bin/bash
# usage: tools/catch_subset.sh <name>[:<check>] ...   re-runs the named seeded changes (against the owning check, or the check
# given after the colon) and replaces / appends their rows in seeded/CATCH.md.  /repo must be clean; nothing else may use it meanwhile.
cd /verif
for spec in "$@"; do
  n=${spec%%:*}; chk=${n%%-*}; [[ "$spec" == *:* ]] && chk=${spec##*:}
  git -C /repo apply /verif/seeded/$n/patch.diff || { echo "$n patch does not apply"; continue; }
  ./check $chk --tier quick > /tmp/cs_out.txt 2> /tmp/cs_err.txt; rc=$?
  git -C /repo checkout -- .
  first=$(grep -A1 '^VIOLATION' /tmp/cs_out.txt | grep 'key=' | head -1 | cut -c1-160 | tr '|' '/')
  [ $rc -eq 2 ] && first="MACHINERY: $(grep MACHINERY /tmp/cs_err.txt | head -1 | cut -c1-160 | tr '|' '/')"
  row="| $n | $chk | $rc | $first |"
  python3 - "$n" "$chk" "$row" <<'PY'
import sys
n, chk, row = sys.argv[1:4]
p = "/verif/seeded/CATCH.md"
lines = open(p).read().splitlines()
pre = "| %s | %s |" % (n, chk)
lines = [l for l in lines if not l.startswith(pre)] + [row]
head, body = lines[:2], sorted(lines[2:])
open(p, "w").write("\n".join(head + body) + "\n")
PY
  echo "$n $chk rc=$rc"
done
git -C /repo status --short | grep -v _build
