#!/bin/bash
# run the quick tier of every registered check; summary on stdout
cd /verif
for id in $(python3 -c "import json; print(' '.join(c['property_id'] for c in json.load(open('MANIFEST.json'))['checks']))"); do
  s=$(date +%s); ./check $id --tier ${1:-quick} > /tmp/runall_$id.out 2> /tmp/runall_$id.err; rc=$?; e=$(date +%s)
  echo "$id rc=$rc $((e-s))s $(grep -c '^KNOWN-FINDING' /tmp/runall_$id.out) known $(grep -c '^VIOLATION' /tmp/runall_$id.out) violations $(grep MACHINERY /tmp/runall_$id.err | cut -c1-200)"
done
