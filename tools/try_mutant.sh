#!/bin/bash
# usage: tools/try_mutant.sh <patch.diff> <property id> [tier]
# applies the patch to /repo, runs the check, always restores /repo
P=$1; ID=$2; TIER=${3:-quick}
cd /verif
git -C /repo apply "$P" || { echo "patch does not apply"; exit 3; }
./check $ID --tier $TIER > /tmp/mut_out.txt 2>/tmp/mut_err.txt; RC=$?
git -C /repo checkout -- . 
echo "rc=$RC"; grep -E "VIOLATION|KNOWN-FINDING|key=" /tmp/mut_out.txt | cut -c1-400 | head -12; tail -3 /tmp/mut_err.txt
