import json,sys
pid=sys.argv[1]; tag=sys.argv[2]
for l in open('/verif/properties.jsonl'):
    d=json.loads(l)
    if d['id']==pid: break
wt=f"/tmp/wt/{pid}{tag}"; out=f"/tmp/wt/{pid}{tag}_out"
print(f"""You are helping test a verification framework for the Colvars library (C++ library of collective variables, source in the git repository /repo). Your job: produce TWO independent, realistic code changes ("seeded changes") to the Colvars sources that each BREAK the semantic property below while the library still compiles and the repository's existing test suite still passes.

PROPERTY {d['id']}: {d['title']}
Statement: {d['statement']}
Quantifier: {d['quantifier']['text']}
Why the existing tests cannot settle it: {d['why_tests_cant']}
Anchored in files: {', '.join(d['anchors']['files'])}

RULES
- Work ONLY in your own scratch git worktree. Create it with:  git -C /repo worktree add --detach {wt} HEAD   and do everything in {wt}. NEVER edit anything in /repo itself, never commit anywhere, and do NOT read or use anything under /verif (your work must be independent of it).
- Build: cd {wt} && cmake -G Ninja -S cmake -B _build -DCMAKE_BUILD_TYPE=Release -DCMAKE_CXX_FLAGS="-Wno-error -O1" -DBUILD_TESTS=ON -DBUILD_UNITTESTS=ON -DBUILD_TOOLS=ON >/dev/null && cmake --build _build -j4 . Test suite: ctest --test-dir _build -j4 --timeout 900 (92 tests pass on the unchanged tree; the test customfunction_harmonic-fixed fails before and after, ignore it). There is no network.
- A convenient way to drive the library without an MD engine is the stub proxy in misc_interfaces/stubs/colvarproxy_stub.cpp (see how tests/functional / the run_colvars_test tool use it); you can subclass colvarproxy (or the stub) in a small C++ program to feed atom positions, total forces, step numbers, restarts, replica communication, etc. Link with {wt}/_build/libcolvars.a (g++ -std=c++17 -O1 -I {wt}/src -I {wt}/misc_interfaces/stubs demo.cpp {wt}/misc_interfaces/stubs/colvarproxy_stub.cpp {wt}/_build/libcolvars.a -fopenmp -o demo).
- Each change must be the kind of mistake a maintainer could plausibly make in a refactoring or optimisation (an off-by-one in a schedule, a stale cache, a forgotten case, a sign or index in a rarely used branch, a state field dropped from or mis-ordered in a save/restore path, two sites that each look fine alone but disagree...). It must NOT be exposed at once by ordinary use: it should need something SPECIFIC to manifest - a particular interleaving or ordering, a crash/restart at a particular point, a multi-step sequence of operations, an unusual but legal input or option combination, or two cooperating sites. Prefer code paths DIFFERENT from the obvious main path; the two changes must be in different mechanisms/code paths from each other.
- Each change must compile, keep all 92 passing tests passing, and really violate the property as stated (not merely change behaviour the property does not talk about).
- For each change write a DEMONSTRATION: either demo.cpp (built with the g++ line above; takes no arguments) or demo.sh (a bash script that may build/run things; it receives the worktree root in the environment variable COLVARS_SRC_ROOT, which has an already-built _build/libcolvars.a; it must not assume {wt} specifically, use $COLVARS_SRC_ROOT). The demonstration must exit 0 on the UNCHANGED tree and exit non-zero WITH your change, and print what it observed. It must check the property itself (e.g. compare against an independently computed expected value), not a recorded number. Verify both outcomes yourself (apply patch -> rebuild -> demo fails; revert -> rebuild -> demo passes) and run the whole test suite with the change applied.
- Deliver, for change k in 1,2, the directory {out}/m<k>/ containing: patch.diff (output of `git diff` in the worktree, src/ files only, applying cleanly to /repo HEAD with `git apply`), demo.cpp and/or demo.sh, notes.md (what the change is, why it violates the property, exactly what is needed for it to manifest, what you ran and what you saw). If a demo.sh exists it is the one that is run.
- When finished, leave the worktree with NO change applied (git checkout -- . in {wt}); do not remove it. Keep your final answer short: for each change one paragraph (file/function changed, what it needs to manifest, test-suite result, demo results with/without).
- If you discover that the UNCHANGED code already violates the property in some way, do not use that as your change; mention it briefly in notes.md and pick something else.
""")
