// -*- c++ -*-
// Engine simulator for the verification harness: a colvarproxy subclass that
// controls and records everything the engine side of the interface sees.
// Lives entirely in /verif; no edit of /repo is needed for it.

#ifndef SIMPROXY_H
#define SIMPROXY_H

#include <iostream>
#include <fstream>
#include <sstream>
#include <string>
#include <vector>
#include <deque>
#include <map>
#include <functional>
#include <mutex>
#include <thread>
#include <cstdio>
#include <cstring>
#include <cmath>
#include <unistd.h>

#include "colvarmodule.h"
#include "colvarscript.h"
#include "colvaratoms.h"
#include "colvar.h"
#include "colvarbias.h"
#include "colvarproxy.h"

struct sim_crash {
  int at;
};

struct sim_fileop {
  std::string op, a, b;
  long size;
};

class simproxy : public colvarproxy {
public:
  // ---- engine parameters
  bool opt_same_step = false;
  bool opt_total_forces = true;
  int natoms_engine = 64;
  std::vector<double> masses, charges;

  // ---- recorded
  double energy_sink = 0.0;
  std::string log_text, err_text;
  bool echo_log = false;
  std::vector<sim_fileop> fileops;
  bool record_fileops = false;
  bool keep_removed = false;      // copy a file to <name>.removed before removing it (lets a coordinator show a reader
                                  // the file-system state inside a writer's multi-operation update)
  int crash_after_fileop = -1; // throw sim_crash when fileops.size() reaches this
  std::deque<double> rand_queue;
  long n_rand_calls = 0;

  // ---- engine state
  bool first_timestep = true;
  std::vector<cvm::rvector> prev_total; // sys(t-1)+applied(t-1) per slot (late convention)
  bool have_prev_total = false;
  double loop_lambda = 0.0;   // the engine adds lambda times the forces Colvars applied to the forces that act at this step

  // ---- smp control
  // mode 0: base class behaviour (OpenMP); 1: serial in a given permutation with logical
  // thread ids; 2: real std::threads with a given assignment
  int smp_sched_mode = 0;
  std::vector<int> smp_perm;     // order of items (indices), applied modulo availability
  std::vector<int> smp_assign;   // logical thread id of each item
  int smp_nthreads = 1;
  static thread_local int tl_thread_id;
  std::mutex smp_mutex;
  std::mutex ev_mutex;
  std::vector<std::string> smp_events;
  bool record_smp = false;
  bool smp_enabled = false;

  // ---- replicas
  int rep_index = 0, rep_num = 1;
  std::vector<int> rep_fd_in, rep_fd_out; // per peer
  bool replicas_on = false;

  // ---- alchemical
  double alch_lambda = 0.0, alch_dEdl = 0.0, alch_force_applied = 0.0;
  bool alch_on = false;

  // ---- scripted callbacks
  std::function<int()> force_callback;
  std::map<std::string, double> scripted_forces;   // variable name -> force added by the scripted-force task
  bool scripted_actual = false;   // route the scripted force through add_bias_force_actual_value (bypasses an extended coordinate)

  simproxy()
  {
    version_int = get_version_from_string(COLVARS_VERSION);
    b_simulation_running = true;
    updated_masses_ = updated_charges_ = true;
    angstrom_value_ = 1.0;
    kcal_mol_value_ = 1.0;
    boltzmann_ = 0.001987191;
    units = "real";
    engine_name_ = "verif";
    colvars = new colvarmodule(this);
    script = new colvarscript(this, colvars);
    have_scripts = true;
    colvars->cv_traj_freq = 0;
    colvars->restart_out_freq = 0;
    cvm::rotation::monitor_crossings = false;
    boundaries_type = boundaries_non_periodic;
    reset_pbc_lattice();
    colvars->it = colvars->it_restart = 0;
  }

  ~simproxy() override
  {
    // delete the module while this (derived) proxy is still alive, so that messages raised during
    // teardown reach our log()/error() instead of the base-class implementations (which print to stdout)
    if (colvars != NULL) {
      delete colvars;
      colvars = NULL;
    }
    // colvars and script are deleted by the base-class destructor chain? No:
    // the base class deletes "colvars" if non-null (see colvarproxy::~colvarproxy)
  }

  void set_cell(double x, double y, double z)
  {
    if (x > 0.0) {
      unit_cell_x.set(x, 0.0, 0.0);
      unit_cell_y.set(0.0, y, 0.0);
      unit_cell_z.set(0.0, 0.0, z);
      boundaries_type = boundaries_pbc_ortho;
      update_pbc_lattice();
    } else {
      boundaries_type = boundaries_non_periodic;
      reset_pbc_lattice();
    }
  }

  void set_boltzmann(double kb) { boltzmann_ = kb; }

  int setup() override
  {
    if (colvars) return colvars->update_engine_parameters();
    return COLVARS_OK;
  }

  int finish_init()
  {
    int err = colvars->update_engine_parameters();
    err |= colvars->setup_input();
    err |= colvars->setup_output();
    return err;
  }

  void request_total_force(bool yesno) override { total_force_requested = yesno; }
  bool total_forces_enabled() const override { return opt_total_forces; }
  bool total_forces_same_step() const override { return opt_same_step; }

  void log(std::string const &message) override
  {
    std::lock_guard<std::mutex> g(ev_mutex);
    log_text += message;
    if (echo_log) std::cerr << "colvars: " << message;
  }

  void error(std::string const &message) override
  {
    std::lock_guard<std::mutex> g(ev_mutex);
    add_error_msg(message);
    err_text += message;
    log_text += message;
    if (echo_log) std::cerr << "colvars: " << message;
  }

  int set_unit_system(std::string const &units_in, bool check_only) override
  {
    if (units_in != "real") {
      cvm::error("Specified unit system \"" + units_in + "\" is unsupported by the verification engine.\n");
      return COLVARS_ERROR;
    }
    (void) check_only;
    return COLVARS_OK;
  }

  int check_atom_id(int atom_number) override
  {
    if (atom_number <= 0 || atom_number > natoms_engine) {
      cvm::error("Error: invalid atom number " + cvm::to_str(atom_number) + "\n", COLVARS_INPUT_ERROR);
      return COLVARS_INPUT_ERROR;
    }
    return atom_number - 1;
  }

  int init_atom(int atom_number) override
  {
    int aid = atom_number - 1;
    for (size_t i = 0; i < atoms_ids.size(); i++) {
      if (atoms_ids[i] == aid) {
        atoms_refcount[i] += 1;
        return i;
      }
    }
    aid = check_atom_id(atom_number);
    if (aid < 0) return COLVARS_INPUT_ERROR;
    int const index = add_atom_slot(aid);
    atoms_masses[index] = (size_t(aid) < masses.size()) ? masses[aid] : 1.0;
    atoms_charges[index] = (size_t(aid) < charges.size()) ? charges[aid] : 0.0;
    return index;
  }

  void add_energy(cvm::real e) override { energy_sink += e; }

  cvm::real rand_gaussian() override
  {
    n_rand_calls++;
    if (rand_queue.empty()) return 0.0;
    double r = rand_queue.front();
    rand_queue.pop_front();
    return r;
  }

  // ---- file operations: record then delegate
  void fileop(std::string const &op, std::string const &a, std::string const &b = "")
  {
    if (!record_fileops) return;
    long sz = -1;
    fileops.push_back(sim_fileop{op, a, b, sz});
    if (crash_after_fileop >= 0 && int(fileops.size()) >= crash_after_fileop) {
      throw sim_crash{int(fileops.size())};
    }
  }

  int backup_file(char const *filename) override
  {
    fileop("backup", filename);
    return colvarproxy::backup_file(filename);
  }
  int remove_file(char const *filename) override
  {
    fileop("remove", filename);
    if (keep_removed) {
      std::ifstream src(filename, std::ios::binary);
      if (src.good()) {
        std::ofstream dst(std::string(filename) + ".removed", std::ios::binary | std::ios::trunc);
        dst << src.rdbuf();
      }
    }
    return colvarproxy::remove_file(filename);
  }
  int rename_file(char const *filename, char const *newfilename) override
  {
    fileop("rename", filename, newfilename);
    return colvarproxy::rename_file(filename, newfilename);
  }
  std::ostream &output_stream(std::string const &output_name, std::string const description) override
  {
    bool const existed = colvarproxy::output_stream_exists(output_name);
    if (!existed) fileop("open_pre", output_name);
    std::ostream &os = colvarproxy::output_stream(output_name, description);
    if (!existed) fileop("open", output_name);
    return os;
  }
  int close_output_stream(std::string const &output_name) override
  {
    fileop("close_pre", output_name);
    int rc = colvarproxy::close_output_stream(output_name);
    fileop("close", output_name);
    return rc;
  }

  // ---- SMP
  smp_mode_t get_smp_mode() const override
  {
    if (smp_sched_mode == 0) return colvarproxy::get_smp_mode();
    return smp_enabled ? smp_mode_t::cvcs : smp_mode_t::none;
  }
  void smp_event(std::string const &e)
  {
    if (!record_smp) return;
    std::lock_guard<std::mutex> g(ev_mutex);
    smp_events.push_back(e);
  }
  int run_items(int n, std::function<int(int)> const &worker, char const *what)
  {
    int err = 0;
    std::vector<int> order;
    // realise permutation: smp_perm lists item indices; indices >= n are skipped, missing appended
    std::vector<bool> seen(n, false);
    for (int p : smp_perm) if (p >= 0 && p < n && !seen[p]) { order.push_back(p); seen[p] = true; }
    for (int i = 0; i < n; i++) if (!seen[i]) order.push_back(i);
    auto tid_of = [&](int i) { return (size_t(i) < smp_assign.size()) ? smp_assign[i] % std::max(1, smp_nthreads) : 0; };
    smp_event(std::string("{\"e\":\"LoopBegin\",\"w\":\"") + what + "\",\"n\":" + std::to_string(n) + "}");
    if (smp_sched_mode == 1) {
      for (int i : order) {
        tl_thread_id = tid_of(i);
        smp_event(std::string("{\"e\":\"ItemStart\",\"w\":\"") + what + "\",\"i\":" + std::to_string(i) + ",\"t\":" + std::to_string(tl_thread_id) + "}");
        err |= worker(i);
        smp_event(std::string("{\"e\":\"ItemEnd\",\"w\":\"") + what + "\",\"i\":" + std::to_string(i) + ",\"t\":" + std::to_string(tl_thread_id) + "}");
      }
      tl_thread_id = 0;
    } else {
      // real threads: one std::thread per logical thread id, each runs its items in "order"
      std::vector<std::thread> ths;
      std::vector<int> errs(smp_nthreads, 0);
      for (int t = 0; t < smp_nthreads; t++) {
        ths.emplace_back([&, t]() {
          tl_thread_id = t;
          for (int i : order) {
            if (tid_of(i) != t) continue;
            smp_event(std::string("{\"e\":\"ItemStart\",\"w\":\"") + what + "\",\"i\":" + std::to_string(i) + ",\"t\":" + std::to_string(t) + "}");
            errs[t] |= worker(i);
            smp_event(std::string("{\"e\":\"ItemEnd\",\"w\":\"") + what + "\",\"i\":" + std::to_string(i) + ",\"t\":" + std::to_string(t) + "}");
          }
        });
      }
      for (auto &th : ths) th.join();
      for (int e : errs) err |= e;
      tl_thread_id = 0;
    }
    smp_event(std::string("{\"e\":\"LoopEnd\",\"w\":\"") + what + "\",\"n\":" + std::to_string(n) + "}");
    return err;
  }
  int smp_loop(int n_items, std::function<int(int)> const &worker) override
  {
    if (smp_sched_mode == 0) return colvarproxy::smp_loop(n_items, worker);
    return run_items(n_items, worker, "cvc");
  }
  int smp_biases_loop() override
  {
    if (smp_sched_mode == 0) return colvarproxy::smp_biases_loop();
    colvarmodule *cv = cvm::main();
    std::vector<colvarbias *> *ba = cv->biases_active();
    int n = ba->size();
    return run_items(n, [ba](int i) { return (*ba)[i]->update(); }, "bias");
  }
  int smp_biases_script_loop() override
  {
    if (smp_sched_mode == 0) return colvarproxy::smp_biases_script_loop();
    colvarmodule *cv = cvm::main();
    std::vector<colvarbias *> *ba = cv->biases_active();
    int n = ba->size();
    // item n is the scripted-force task
    return run_items(n + 1, [ba, cv, n](int i) {
      if (i == n) return cv->calc_scripted_forces();
      return (*ba)[i]->update();
    }, "bias");
  }
  int smp_thread_id() override
  {
    if (smp_sched_mode == 0) return colvarproxy::smp_thread_id();
    return tl_thread_id;
  }
  int smp_num_threads() override
  {
    if (smp_sched_mode == 0) return colvarproxy::smp_num_threads();
    return smp_nthreads;
  }
  int smp_lock() override
  {
    if (smp_sched_mode == 0) return colvarproxy::smp_lock();
    smp_mutex.lock();
    smp_event(std::string("{\"e\":\"Lock\",\"t\":") + std::to_string(tl_thread_id) + "}");
    return COLVARS_OK;
  }
  int smp_trylock() override
  {
    if (smp_sched_mode == 0) return colvarproxy::smp_trylock();
    if (smp_mutex.try_lock()) {
      smp_event(std::string("{\"e\":\"Lock\",\"t\":") + std::to_string(tl_thread_id) + "}");
      return COLVARS_OK;
    }
    return COLVARS_ERROR;
  }
  int smp_unlock() override
  {
    if (smp_sched_mode == 0) return colvarproxy::smp_unlock();
    smp_event(std::string("{\"e\":\"Unlock\",\"t\":") + std::to_string(tl_thread_id) + "}");
    smp_mutex.unlock();
    return COLVARS_OK;
  }

  // ---- replicas over file descriptors
  int check_replicas_enabled() override { return replicas_on ? COLVARS_OK : COLVARS_NOT_IMPLEMENTED; }
  int replica_index() override { return rep_index; }
  int num_replicas() override { return rep_num; }
  void replica_comm_barrier() override {}
  static bool read_all(int fd, char *buf, size_t n)
  {
    size_t got = 0;
    while (got < n) {
      ssize_t r = ::read(fd, buf + got, n - got);
      if (r <= 0) return false;
      got += r;
    }
    return true;
  }
  static bool write_all(int fd, char const *buf, size_t n)
  {
    size_t put = 0;
    while (put < n) {
      ssize_t r = ::write(fd, buf + put, n - put);
      if (r <= 0) return false;
      put += r;
    }
    return true;
  }
  int replica_comm_recv(char *msg_data, int buf_len, int src_rep) override
  {
    int fd = rep_fd_in.at(src_rep);
    int32_t len = 0;
    if (!read_all(fd, reinterpret_cast<char *>(&len), 4)) return 0;
    std::vector<char> tmp(len);
    if (!read_all(fd, tmp.data(), len)) return 0;
    int n = std::min<int>(len, buf_len);
    memcpy(msg_data, tmp.data(), n);
    return n;
  }
  int replica_comm_send(char *msg_data, int msg_len, int dest_rep) override
  {
    int fd = rep_fd_out.at(dest_rep);
    int32_t len = msg_len;
    if (!write_all(fd, reinterpret_cast<char *>(&len), 4)) return 0;
    if (!write_all(fd, msg_data, msg_len)) return 0;
    return msg_len;
  }

  // ---- alchemical
  int get_alch_lambda(cvm::real *lambda) override
  {
    if (!alch_on) return colvarproxy::get_alch_lambda(lambda);
    *lambda = alch_lambda;
    return COLVARS_OK;
  }
  int send_alch_lambda() override
  {
    if (!alch_on) return colvarproxy::send_alch_lambda();
    alch_lambda = cached_alch_lambda;
    return COLVARS_OK;
  }
  int get_dE_dlambda(cvm::real *dE) override
  {
    if (!alch_on) return colvarproxy::get_dE_dlambda(dE);
    *dE = alch_dEdl;
    return COLVARS_OK;
  }
  int apply_force_dE_dlambda(cvm::real *force) override
  {
    if (!alch_on) return colvarproxy::apply_force_dE_dlambda(force);
    alch_force_applied = *force;
    return COLVARS_OK;
  }

  int run_force_callback() override
  {
    if (force_callback) return force_callback();
    for (auto const &kv : scripted_forces) {
      colvar *c = cvm::colvar_by_name(kv.first);
      if (c) {
        colvarvalue f(c->value());
        f.reset();
        f.real_value = kv.second;
        if (scripted_actual) c->add_bias_force_actual_value(f); else c->add_bias_force(f);
      }
    }
    return COLVARS_OK;
  }

  // ---- one engine step.  pos/sys are indexed by engine atom id (0-based).
  // newrun: the engine starts a new "run" command on the same step (no increment).
  int engine_step(std::vector<cvm::rvector> const &pos, std::vector<cvm::rvector> const &sys, bool newrun)
  {
    if (first_timestep) {
      first_timestep = false;
      b_simulation_continuing = false;
    } else {
      if (!newrun) {
        colvarmodule::it++;
        b_simulation_continuing = false;
      } else {
        b_simulation_continuing = true;
      }
    }
    size_t const n = atoms_ids.size();
    for (size_t i = 0; i < n; i++) {
      atoms_new_colvar_forces[i].reset();
      size_t const id = atoms_ids[i];
      if (id < pos.size()) atoms_positions[i] = pos[id];
      cvm::rvector s(0.0, 0.0, 0.0);
      if (id < sys.size()) s = sys[id];
      if (opt_same_step) {
        atoms_total_forces[i] = s;
      } else {
        if (have_prev_total && !newrun && i < prev_total.size()) atoms_total_forces[i] = prev_total[i];
        else atoms_total_forces[i].reset();
      }
    }
    energy_sink = 0.0;
    int rc = colvars->calc();
    // the forces that act at this step: system + what Colvars just applied
    size_t const n2 = atoms_ids.size();
    prev_total.assign(n2, cvm::rvector(0.0, 0.0, 0.0));
    for (size_t i = 0; i < n2; i++) {
      size_t const id = atoms_ids[i];
      cvm::rvector s(0.0, 0.0, 0.0);
      if (id < sys.size()) s = sys[id];
      prev_total[i] = s + (1.0 + loop_lambda) * atoms_new_colvar_forces[i];
    }
    have_prev_total = true;
    return rc;
  }

  // applied force on engine atom id (0-based); zero if not requested
  cvm::rvector applied_on(int id) const
  {
    cvm::rvector f(0.0, 0.0, 0.0);
    for (size_t i = 0; i < atoms_ids.size(); i++) {
      if (atoms_ids[i] == id && atoms_refcount[i] > 0) f += atoms_new_colvar_forces[i];
    }
    return f;
  }

  std::vector<int> const &ids() const { return atoms_ids; }
  std::vector<size_t> const &refcounts() const { return atoms_refcount; }
  std::vector<cvm::rvector> const &new_forces() const { return atoms_new_colvar_forces; }
};

#endif
