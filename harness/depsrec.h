// -*- c++ -*-
// Recorder of dependency operations (hook 1: colvardeps::verif_cb + friend probe).
// One JSON event per OUTERMOST operation, with the post-state of every live object.
#ifndef DEPSREC_H
#define DEPSREC_H
#ifdef COLVARS_VERIF
#include <map>
#include <set>
#include <nlohmann/json.hpp>
#include "colvardeps.h"

struct colvars_verif_probe {
  static std::vector<colvardeps::feature_state> const &fs(colvardeps const *o) { return o->feature_states; }
  static std::vector<colvardeps *> const &children(colvardeps const *o) { return o->children; }
  static std::vector<colvardeps *> const &parents(colvardeps const *o) { return o->parents; }
  static std::vector<colvardeps::feature *> const &features(colvardeps const *o) { return const_cast<colvardeps *>(o)->features(); }
};

struct depsrec {
  static depsrec &get() { static depsrec r; return r; }
  bool on = false;
  int next_id = 1;
  std::map<colvardeps const *, int> ids;          // live objects
  std::set<colvardeps const *> constructed;       // objects whose features() may be called
  std::map<void const *, std::string> kinds;      // features table -> kind name
  std::vector<std::string> events;
  nlohmann::json tables = nlohmann::json::array();

  std::string kind_of(colvardeps const *o)
  {
    std::vector<colvardeps::feature *> const &f = colvars_verif_probe::features(o);
    void const *key = static_cast<void const *>(&f);
    auto it = kinds.find(key);
    if (it != kinds.end()) return it->second;
    std::string name = "k" + std::to_string(f.size());
    kinds[key] = name;
    nlohmann::json t;
    t["kind"] = name;
    t["n"] = f.size();
    nlohmann::json feats = nlohmann::json::array();
    for (size_t i = 0; i < f.size(); i++) {
      nlohmann::json jf;
      jf["d"] = f[i]->description;
      jf["t"] = f[i]->is_dynamic() ? "dyn" : (f[i]->is_user() ? "user" : (f[i]->is_static() ? "static" : "unset"));
      jf["self"] = f[i]->requires_self;
      jf["alt"] = f[i]->requires_alt;
      jf["child"] = f[i]->requires_children;
      jf["excl"] = f[i]->requires_exclude;
      feats.push_back(jf);
    }
    t["feat"] = feats;
    tables.push_back(t);
    return name;
  }

  nlohmann::json snapshot(colvardeps const *skip)
  {
    nlohmann::json post = nlohmann::json::array();
    for (auto const &kv : ids) {
      colvardeps const *o = kv.first;
      if (o == skip || !constructed.count(o)) continue;
      nlohmann::json jo;
      jo["id"] = kv.second;
      jo["kind"] = kind_of(o);
      nlohmann::json fs = nlohmann::json::array();
      for (auto const &s : colvars_verif_probe::fs(o)) {
        fs.push_back(nlohmann::json::array({s.available ? 1 : 0, s.enabled ? 1 : 0, s.ref_count, s.alternate_refs}));
      }
      jo["fs"] = fs;
      nlohmann::json ch = nlohmann::json::array();
      for (colvardeps *c : colvars_verif_probe::children(o)) {
        auto it = ids.find(c);
        ch.push_back(it == ids.end() ? -1 : it->second);
      }
      jo["ch"] = ch;
      post.push_back(jo);
    }
    return post;
  }

  static void cb(char const *op, colvardeps const *o, int a, int b, int c, colvardeps const *other, int phase)
  {
    depsrec &r = get();
    std::string const sop(op);
    if (sop == "new") {
      if (phase == 0) r.ids[o] = r.next_id++;
      return;   // nothing observable yet
    }
    if (sop == "del") {
      if (phase == 0) {
        if (r.on && r.ids.count(o)) {
          nlohmann::json e;
          e["op"] = "del"; e["o"] = r.ids[o]; e["a"] = 0; e["b"] = 0; e["c"] = 0; e["other"] = 0;
          r.constructed.erase(o);
          e["post"] = r.snapshot(o);
          r.events.push_back(e.dump());
        }
        r.constructed.erase(o);
      } else {
        r.ids.erase(o);
      }
      return;
    }
    if (!r.ids.count(o)) r.ids[o] = r.next_id++;   // object created before the recorder was installed
    r.constructed.insert(o);
    if (other && r.ids.count(other) && sop != "add_child") r.constructed.insert(other);
    if (sop == "add_child" && other) {
      if (!r.ids.count(other)) r.ids[other] = r.next_id++;
      r.constructed.insert(other);
    }
    if (phase == 0 || !r.on) return;
    nlohmann::json e;
    e["op"] = sop; e["o"] = r.ids[o]; e["a"] = a; e["b"] = b; e["c"] = c;
    e["other"] = (other && r.ids.count(other)) ? r.ids[other] : 0;
    e["post"] = r.snapshot(nullptr);
    r.events.push_back(e.dump());
  }

  void install() { colvardeps::verif_cb = &depsrec::cb; }
};
#endif
#endif
