// Generic scenario driver: reads one JSON command per line on stdin, executes it against the
// real Colvars library through simproxy, writes one JSON result per line on stdout.
// All orchestration (spec behaviours -> commands, results -> verdicts / trace events) is done
// by the python check driver; this file only exposes the implementation's public interface.

#include <nlohmann/json.hpp>
#include <sys/stat.h>
#include <sys/types.h>
#include <sys/resource.h>
#include <signal.h>
#include <dirent.h>
#include "simproxy.h"
#include "colvargrid.h"
#include "colvars_memstream.h"
#include "colvarcomp.h"
#include "depsrec.h"

using json = nlohmann::json;

thread_local int simproxy::tl_thread_id = 0;

static simproxy *P = nullptr;

static json vec3(cvm::rvector const &v) { return json::array({v.x, v.y, v.z}); }

static json cvval(colvarvalue const &v)
{
  cvm::vector1d<cvm::real> a = v.as_vector();
  json j = json::array();
  for (size_t i = 0; i < a.size(); i++) j.push_back(a[i]);
  return j;
}

static std::vector<cvm::rvector> getvecs(json const &j)
{
  std::vector<cvm::rvector> r;
  for (auto const &e : j) r.push_back(cvm::rvector(e.at(0).get<double>(), e.at(1).get<double>(), e.at(2).get<double>()));
  return r;
}

static std::string tohex(std::vector<unsigned char> const &b)
{
  static char const *d = "0123456789abcdef";
  std::string s;
  s.reserve(b.size() * 2);
  for (unsigned char c : b) { s.push_back(d[c >> 4]); s.push_back(d[c & 15]); }
  return s;
}

static std::vector<unsigned char> fromhex(std::string const &s)
{
  std::vector<unsigned char> b;
  auto v = [](char c) { return (c >= 'a') ? (c - 'a' + 10) : (c - '0'); };
  for (size_t i = 0; i + 1 < s.size(); i += 2) b.push_back((v(s[i]) << 4) | v(s[i + 1]));
  return b;
}

static json observe(json const &cmd)
{
  json o;
  colvarmodule *cv = P->colvars;
  o["it"] = (long) cvm::it;
  o["E"] = P->energy_sink;
  o["err"] = cvm::get_error();
  bool const want_atoms = cmd.value("atoms", true);
  if (want_atoms) {
    json fa = json::object();
    std::vector<int> const &ids = P->ids();
    for (size_t i = 0; i < ids.size(); i++) {
      if (P->refcounts()[i] == 0) continue;
      cvm::rvector f = P->new_forces()[i];
      std::string k = std::to_string(ids[i]);
      if (fa.contains(k)) {
        f += cvm::rvector(fa[k][0].get<double>(), fa[k][1].get<double>(), fa[k][2].get<double>());
      }
      fa[k] = vec3(f);
    }
    o["fat"] = fa;
    o["nactive"] = P->get_num_active_atoms();
  }
  json cvs = json::object();
  for (colvar *c : *(cv->variables())) {
    json jc;
    jc["x"] = cvval(c->value());
    jc["active"] = c->is_enabled(colvardeps::f_cv_active) ? 1 : 0;
    if (c->is_enabled(colvardeps::f_cv_extended_Lagrangian)) jc["xa"] = cvval(c->actual_value());
    if (c->is_enabled(colvardeps::f_cv_total_force)) jc["ft"] = cvval(c->total_force());
    if (c->is_enabled(colvardeps::f_cv_fdiff_velocity)) jc["v"] = cvval(c->velocity());
    jc["fa"] = cvval(c->applied_force());
    cvs[c->name] = jc;
  }
  o["cvs"] = cvs;
  json bs = json::object();
  for (colvarbias *b : cv->biases) {
    json jb;
    jb["E"] = b->get_energy();
    jb["active"] = b->is_enabled(colvardeps::f_cvb_active) ? 1 : 0;
    bs[b->name] = jb;
  }
  o["biases"] = bs;
  o["Etot"] = cv->total_bias_energy;
  return o;
}


// ---- typed round trips through cvm::memory_stream (C11)
static json memstream_case(json const &cmd)
{
  json r;
  json const &items = cmd.at("items");
  cvm::memory_stream os;
  json wl = json::array();
  for (auto const &it : items) {
    std::string t = it.at("t");
    if (t == "u8") { unsigned char v = it["v"].get<int>(); os << v; }
    else if (t == "i32") { int v = it["v"].get<int>(); os << v; }
    else if (t == "i64") { long long v = it["v"].get<long long>(); os << v; }
    else if (t == "f64") { double v = it["v"].get<double>(); os << v; }
    else if (t == "str") { std::string v = it["v"].get<std::string>(); os << v; }
    else if (t == "vu8") { std::vector<unsigned char> v; for (int x : it["v"]) v.push_back(x); os << v; }
    else if (t == "vi32") { std::vector<int> v = it["v"].get<std::vector<int>>(); os << v; }
    else if (t == "vi64") { std::vector<long long> v = it["v"].get<std::vector<long long>>(); os << v; }
    else if (t == "vf64") { std::vector<double> v = it["v"].get<std::vector<double>>(); os << v; }
    else if (t == "v1d") { std::vector<double> v = it["v"].get<std::vector<double>>(); cvm::vector1d<cvm::real> a(v.size()); for (size_t i = 0; i < v.size(); i++) a[i] = v[i]; os << a; }
    wl.push_back(os.length());
  }
  r["wlen"] = wl;
  r["wok"] = bool(os);
  std::vector<unsigned char> buf(os.output_buffer(), os.output_buffer() + os.length());
  if (cmd.contains("truncate")) { size_t k = cmd["truncate"]; if (k < buf.size()) buf.resize(k); }
  if (cmd.contains("patch")) {
    size_t off = cmd["patch"]["off"];
    unsigned long long val = std::stoull(cmd["patch"]["u64"].get<std::string>());
    if (off + 8 <= buf.size()) std::memcpy(buf.data() + off, &val, 8);
  }
  cvm::memory_stream is(buf.size(), buf.data());
  json rl = json::array();
  // prefill: the destinations already hold other data (a read must REPLACE the destination, whatever it held)
  bool const pf = cmd.value("prefill", false);
  for (auto const &it : items) {
    std::string t = it.at("t");
    json o;
    if (t == "u8") { unsigned char v = pf ? 0xa5 : 0; is >> v; o["v"] = int(v); }
    else if (t == "i32") { int v = pf ? -77 : 0; is >> v; o["v"] = v; }
    else if (t == "i64") { long long v = pf ? -77 : 0; is >> v; o["v"] = v; }
    else if (t == "f64") { double v = pf ? -7.5 : 0; is >> v; o["v"] = v; }
    else if (t == "str") { std::string v; if (pf) v = "previous contents"; is >> v; o["v"] = v; }
    else if (t == "vu8") { std::vector<unsigned char> v; if (pf) v.assign(5, 0xa5); is >> v; json a = json::array(); for (auto x : v) a.push_back(int(x)); o["v"] = a; }
    else if (t == "vi32") { std::vector<int> v; if (pf) v.assign(5, -77); is >> v; o["v"] = v; }
    else if (t == "vi64") { std::vector<long long> v; if (pf) v.assign(5, -77); is >> v; o["v"] = v; }
    else if (t == "vf64") { std::vector<double> v; if (pf) v.assign(5, -7.5); is >> v; o["v"] = v; }
    else if (t == "v1d") { cvm::vector1d<cvm::real> a; if (pf) { a.resize(5); for (size_t i = 0; i < 5; i++) a[i] = -7.5; } is >> a; json l = json::array(); for (size_t i = 0; i < a.size(); i++) l.push_back(a[i]); o["v"] = l; }
    o["ok"] = bool(is);
    o["pos"] = is.tellg();
    rl.push_back(o);
    if (!is) break;
  }
  r["reads"] = rl;
  r["buflen"] = buf.size();
  return r;
}

// ---- value metric (C18): colvarvalue static functions called directly
static colvarvalue mkvalue(std::string const &ty, json const &v)
{
  if (ty == "scalar") return colvarvalue(v.at(0).get<double>());
  if (ty == "vector3") return colvarvalue(cvm::rvector(v.at(0), v.at(1), v.at(2)), colvarvalue::type_3vector);
  if (ty == "unit") return colvarvalue(cvm::rvector(v.at(0), v.at(1), v.at(2)), colvarvalue::type_unit3vector);
  if (ty == "quat") return colvarvalue(cvm::quaternion(v.at(0), v.at(1), v.at(2), v.at(3)));
  cvm::vector1d<cvm::real> a(v.size());
  for (size_t i = 0; i < v.size(); i++) a[i] = v.at(i).get<double>();
  return colvarvalue(a, colvarvalue::type_vector);
}

static json metric_case(json const &cmd)
{
  json r;
  std::string const ty = cmd.at("ty");
  colvarvalue a = mkvalue(ty, cmd.at("a")), b = mkvalue(ty, cmd.at("b"));
  cvm::clear_error();
  r["d2"] = a.dist2(b);
  r["d2ba"] = b.dist2(a);
  r["grad"] = cvval(a.dist2_grad(b));
  if (cmd.contains("lam")) {
    colvarvalue const m = colvarvalue::interpolate(a, b, cmd["lam"].get<double>());
    r["interp"] = cvval(m);
  }
  r["err"] = cvm::get_error();
  cvm::clear_error();
  return r;
}

// ---- PMF integrator (C16): protected members reached through a subclass, no hook needed
struct ip_probe : public integrate_potential {
  ip_probe(std::shared_ptr<colvar_grid_gradient> g) : integrate_potential(g) {}
  std::vector<cvm::real> &div() { return divergence; }
  void lap(std::vector<cvm::real> const &x, std::vector<cvm::real> &r) { atimes(x, r); }
};
static std::shared_ptr<colvar_grid_gradient> ip_grad;
static std::unique_ptr<ip_probe> ip;

static json ip_handle(json const &cmd)
{
  json r;
  std::string const op = cmd.at("op");
  cvm::clear_error();
  if (op == "ipnew") {
    ip.reset();
    ip_grad = std::make_shared<colvar_grid_gradient>(cmd.at("file").get<std::string>());
    if (cvm::get_error()) { r["rc"] = 1; r["errtext"] = P->err_text; return r; }
    ip.reset(new ip_probe(ip_grad));
    if (cmd.value("setdiv", false)) ip->set_div();
    r["nx"] = ip->number_of_points_vec();
    r["nt"] = ip->number_of_points();
    r["rc"] = 0;
    return r;
  }
  if (!ip) { r["rc"] = 1; return r; }
  if (op == "ipset") {
    std::vector<int> ix = cmd.at("ix").get<std::vector<int>>();
    std::vector<double> v = cmd.at("v").get<std::vector<double>>();
    for (size_t i = 0; i < v.size(); i++) ip_grad->set_value(ix, v[i], i);
    ip->update_div_neighbors(ix);
    r["rc"] = 0;
    return r;
  }
  if (op == "ipdiv") {
    if (cmd.value("batch", false)) ip->set_div();
    r["div"] = ip->div();
    r["rc"] = 0;
    return r;
  }
  if (op == "iplap") {
    size_t const nt = ip->number_of_points();
    json cols = json::array();
    std::vector<cvm::real> x(nt, 0.0), y(nt, 0.0);
    for (size_t q = 0; q < nt; q++) {
      std::fill(x.begin(), x.end(), 0.0);
      std::fill(y.begin(), y.end(), 0.0);
      x[q] = 1.0;
      ip->lap(x, y);
      cols.push_back(y);
    }
    r["cols"] = cols;
    r["rc"] = 0;
    return r;
  }
  if (op == "ipsolve") {
    cvm::real err = 0.0;
    int const iter = ip->integrate(cmd.value("itmax", 10000), cmd.value("tol", 1e-10), err, false);
    size_t const nt = ip->number_of_points();
    std::vector<cvm::real> x(nt), y(nt, 0.0);
    json data = json::array();
    std::vector<int> ix = ip->new_index();
    for (size_t a = 0; a < nt; a++) { x[a] = ip->value(ix); data.push_back(x[a]); ip->incr(ix); }
    r["data"] = data; r["iter"] = iter; r["err"] = err;
    if (ip->num_variables() > 1) { ip->lap(x, y); r["lap"] = y; r["div"] = ip->div(); }
    r["rc"] = 0;
    return r;
  }
  r["rc"] = -2;
  return r;
}

static std::string workdir;

static json handle(json const &cmd)
{
  std::string const op = cmd.at("op");
  json r;
  r["op"] = op;
  if (op == "new") {
    if (P) { delete P; P = nullptr; }
    P = new simproxy();
    P->opt_same_step = cmd.value("sameStep", false);
    P->opt_total_forces = cmd.value("totalForces", true);
    P->natoms_engine = cmd.value("natoms", 64);
    if (cmd.contains("masses")) P->masses = cmd["masses"].get<std::vector<double>>();
    if (cmd.contains("charges")) P->charges = cmd["charges"].get<std::vector<double>>();
    if (cmd.contains("kB")) P->set_boltzmann(cmd["kB"].get<double>());
    P->set_target_temperature(cmd.value("T", 0.0));
    P->set_integration_timestep(cmd.value("dt", 1.0));
    if (cmd.contains("cell")) P->set_cell(cmd["cell"][0], cmd["cell"][1], cmd["cell"][2]);
    P->echo_log = cmd.value("echo", false);
    P->record_fileops = cmd.value("recordFiles", false);
    P->keep_removed = cmd.value("keepRemoved", false);
    if (cmd.contains("prefix")) {
      P->set_output_prefix(cmd["prefix"].get<std::string>());
      if (cmd.contains("restartPrefix")) P->set_restart_output_prefix(cmd["restartPrefix"].get<std::string>());
    }
    if (cmd.contains("inputPrefix")) P->set_input_prefix(cmd["inputPrefix"].get<std::string>());
    if (cmd.contains("smp")) {
      json const &s = cmd["smp"];
      P->smp_sched_mode = s.value("mode", 0);
      P->smp_nthreads = s.value("threads", 1);
      P->smp_enabled = s.value("enabled", true);
      P->record_smp = s.value("record", false);
      if (s.contains("perm")) P->smp_perm = s["perm"].get<std::vector<int>>();
      if (s.contains("assign")) P->smp_assign = s["assign"].get<std::vector<int>>();
    }
    if (cmd.contains("replica")) {
      P->replicas_on = true;
      P->rep_index = cmd["replica"]["index"];
      P->rep_num = cmd["replica"]["num"];
      P->rep_fd_in = cmd["replica"]["fdin"].get<std::vector<int>>();
      P->rep_fd_out = cmd["replica"]["fdout"].get<std::vector<int>>();
    }
    if (cmd.contains("alch")) {
      P->alch_on = true;
      P->alch_lambda = cmd["alch"].value("lambda", 0.0);
    }
    if (cmd.contains("step0")) P->colvars->set_initial_step(cmd["step0"].get<long>());
    int err = P->colvars->update_engine_parameters();
    if (cmd.contains("restartFreq")) P->colvars->restart_out_freq = cmd["restartFreq"].get<int>();
    if (cmd.contains("trajFreq")) P->colvars->cv_traj_freq = cmd["trajFreq"].get<int>();
    r["rc"] = err;
    return r;
  }
#ifdef COLVARS_VERIF
  if (op == "depsrec") {
    depsrec::get().install();
    depsrec::get().on = cmd.value("on", true);
    r["rc"] = 0;
    return r;
  }
  if (op == "depsevents") {
    json l = json::array();
    for (auto const &e : depsrec::get().events) l.push_back(json::parse(e));
    depsrec::get().events.clear();
    r["events"] = l;
    r["tables"] = depsrec::get().tables;
    return r;
  }
#endif
  if (op == "seq") {
    // several commands in one round trip; stops at the first reply that is not an object with rc
    json out = json::array();
    for (auto const &c : cmd.at("cmds")) out.push_back(handle(c));
    r["replies"] = out; r["rc"] = 0;
    return r;
  }
  if (op == "quit") { if (P) { delete P; P = nullptr; } r["rc"] = 0; return r; }
  if (op == "memstream") { json m = memstream_case(cmd); m["op"] = op; return m; }
  if (op == "mkdir") {
    std::string d = cmd.at("dir");
    mkdir(d.c_str(), 0755);
    if (cmd.value("chdir", true)) { if (chdir(d.c_str()) != 0) r["err"] = "chdir failed"; }
    r["rc"] = 0;
    return r;
  }
  if (op == "writefile") {
    std::ofstream f(cmd.at("name").get<std::string>(), std::ios::binary);
    if (cmd.contains("hex")) { auto b = fromhex(cmd["hex"]); f.write((char const *) b.data(), b.size()); }
    else f << cmd.at("text").get<std::string>();
    r["rc"] = 0;
    return r;
  }
  if (op == "readfile") {
    std::ifstream f(cmd.at("name").get<std::string>(), std::ios::binary);
    if (!f) { r["rc"] = 1; return r; }
    std::stringstream ss; ss << f.rdbuf();
    std::string s = ss.str();
    if (cmd.value("hex", false)) r["hex"] = tohex(std::vector<unsigned char>(s.begin(), s.end()));
    else r["text"] = s;
    r["rc"] = 0;
    return r;
  }
  if (op == "ls") {
    json l = json::array();
    DIR *d = opendir(".");
    if (d) { while (dirent *e = readdir(d)) { std::string n = e->d_name; if (n != "." && n != "..") l.push_back(n); } closedir(d); }
    r["files"] = l;
    return r;
  }
  if (!P) { r["rc"] = -1; r["error"] = "no instance"; return r; }
  colvarmodule *cv = P->colvars;
  if (op == "destroy") { delete P; P = nullptr; r["rc"] = 0; return r; }
  if (op == "config") {
    cvm::clear_error();
    P->err_text.clear();
    int rc = cv->read_config_string(cmd.at("text").get<std::string>());
    r["rc"] = rc; r["err"] = cvm::get_error(); r["errtext"] = P->err_text;
    if (cmd.value("finish", true)) { r["rc2"] = cv->setup_input() | cv->setup_output(); }
    r["ncv"] = cv->variables()->size(); r["nb"] = cv->biases.size();
    {
      json nm = json::array();
      for (colvar *c : *(cv->variables())) nm.push_back(c->name);
      for (colvarbias *b : cv->biases) nm.push_back(b->name);
      r["names"] = nm;
    }
    if (cmd.value("clear", true)) cvm::clear_error();
    return r;
  }
  if (op == "step") {
    std::vector<cvm::rvector> pos = getvecs(cmd.at("pos"));
    std::vector<cvm::rvector> sys;
    if (cmd.contains("sys")) sys = getvecs(cmd["sys"]);
    if (cmd.contains("rand")) { P->rand_queue.clear(); for (double x : cmd["rand"]) P->rand_queue.push_back(x); }
    if (cmd.contains("dEdl")) P->alch_dEdl = cmd["dEdl"];
    P->loop_lambda = cmd.value("lam", 0.0);
    P->scripted_actual = cmd.value("actual", false);
    if (cmd.contains("cvforce")) { P->scripted_forces.clear(); for (auto it = cmd["cvforce"].begin(); it != cmd["cvforce"].end(); ++it) P->scripted_forces[it.key()] = it.value().get<double>(); }
    if (cmd.contains("cell")) P->set_cell(cmd["cell"][0], cmd["cell"][1], cmd["cell"][2]);
    if (cmd.contains("perm")) P->smp_perm = cmd["perm"].get<std::vector<int>>();
    if (cmd.contains("assign")) P->smp_assign = cmd["assign"].get<std::vector<int>>();
    cvm::clear_error();
    P->err_text.clear();
    int rc = P->engine_step(pos, sys, cmd.value("newrun", false));
    r = observe(cmd);
    r["op"] = op; r["rc"] = rc;
    if (P->err_text.size()) r["errtext"] = P->err_text;
    if (cmd.value("clear", true)) cvm::clear_error();
    return r;
  }
  if (op == "newrun") {
    // what an engine does between two run commands: setup()
    r["rc"] = P->setup();
    return r;
  }
  if (op == "setupout") { r["rc"] = cv->setup_output(); r["err"] = cvm::get_error(); cvm::clear_error(); return r; }
  if (op == "postrun") { r["rc"] = P->post_run(); return r; }
  if (op == "flush") { r["rc"] = P->flush_output_streams(); return r; }
  if (op == "save") {
    std::string fmt = cmd.value("fmt", "text");
    if (fmt == "text") {
      std::string s;
      r["rc"] = cv->write_restart_string(s);
      r["state"] = s;
    } else if (fmt == "bin") {
      std::vector<unsigned char> buf;
      r["rc"] = cv->write_state_buffer(buf);
      r["hex"] = tohex(buf);
    } else if (fmt == "file") {
      r["rc"] = cv->write_restart_file(cmd.at("name").get<std::string>());
    }
    r["err"] = cvm::get_error();
    return r;
  }
  if (op == "load") {
    cvm::clear_error();
    P->err_text.clear();
    std::string fmt = cmd.value("fmt", "text");
    int rc = 0;
    if (fmt == "text") {
      P->input_stream_from_string("input state string", cmd.at("state").get<std::string>());
      rc = cv->setup_input();
    } else if (fmt == "bin") {
      std::vector<unsigned char> b = fromhex(cmd.at("hex"));
      rc = cv->set_input_state_buffer(b);
      rc |= cv->setup_input();
    } else if (fmt == "file") {
      P->set_input_prefix(cmd.at("name").get<std::string>());
      rc = cv->setup_input();
    }
    r["rc"] = rc; r["err"] = cvm::get_error(); r["errtext"] = P->err_text;
    r["it"] = (long) cvm::it;
    if (cmd.value("clear", true)) cvm::clear_error();
    return r;
  }
  if (op == "script") {
    std::vector<std::string> a = cmd.at("args").get<std::vector<std::string>>();
    std::vector<unsigned char *> av;
    for (auto &s : a) av.push_back((unsigned char *) s.c_str());
    cvm::clear_error();
    P->err_text.clear();
    int rc = run_colvarscript_command(av.size(), av.data());
    r["rc"] = rc;
    r["res"] = std::string(get_colvarscript_result());
    r["err"] = cvm::get_error();
    if (cmd.value("clear", true)) cvm::clear_error();
    return r;
  }
  if (op == "scripttable") {
    // the command table of the running implementation: names and argument-count bounds
    std::vector<std::string> a = {"cv", "listcommands"};
    std::vector<unsigned char *> av;
    for (auto &s : a) av.push_back((unsigned char *) s.c_str());
    run_colvarscript_command(av.size(), av.data());
    std::string names(get_colvarscript_result());
    json l = json::array();
    std::istringstream is(names);
    std::string n;
    while (is >> n) {
      json c;
      c["name"] = n;
      c["min"] = P->script->get_command_n_args_min(n.c_str());
      c["max"] = P->script->get_command_n_args_max(n.c_str());
      l.push_back(c);
    }
    r["commands"] = l;
    return r;
  }
  if (op.compare(0, 2, "ip") == 0) { json m = ip_handle(cmd); m["op"] = op; return m; }
  if (op == "metric") { json m = metric_case(cmd); m["op"] = op; return m; }
  if (op == "cvmetric") {
    colvar *c = cvm::colvar_by_name(cmd.at("cv"));
    if (!c) { r["rc"] = 1; return r; }
    colvarvalue a(c->value()), b(c->value());
    a.real_value = cmd.at("a").get<double>();
    b.real_value = cmd.at("b").get<double>();
    r["d2"] = c->dist2(a, b);
    r["lgrad"] = cvval(c->dist2_lgrad(a, b));
    r["rgrad"] = cvval(c->dist2_rgrad(a, b));
    colvarvalue w(a);
    c->wrap(w);
    r["wrap"] = w.real_value;
    r["rc"] = 0;
    return r;
  }
  if (op == "observe") { r = observe(cmd); r["op"] = op; return r; }
  if (op == "log") { r["text"] = P->log_text; if (cmd.value("clear", true)) P->log_text.clear(); return r; }
  if (op == "fileops") {
    json l = json::array();
    for (auto const &f : P->fileops) l.push_back({{"op", f.op}, {"a", f.a}, {"b", f.b}});
    r["ops"] = l;
    if (cmd.value("clear", true)) P->fileops.clear();
    return r;
  }
  if (op == "crashat") { P->crash_after_fileop = cmd.at("n"); P->record_fileops = true; r["rc"] = 0; return r; }
  if (op == "smpevents") {
    json l = json::array();
    for (auto const &e : P->smp_events) l.push_back(json::parse(e));
    r["events"] = l;
    P->smp_events.clear();
    return r;
  }
  if (op == "set") {
    if (cmd.contains("it")) { cvm::it = cmd["it"].get<long>(); }
    if (cmd.contains("restartFreq")) cv->restart_out_freq = cmd["restartFreq"].get<int>();
    if (cmd.contains("trajFreq")) cv->cv_traj_freq = cmd["trajFreq"].get<int>();
    if (cmd.contains("T")) P->set_target_temperature(cmd["T"].get<double>());
    if (cmd.contains("first")) P->first_timestep = cmd["first"].get<bool>();
    r["rc"] = 0;
    return r;
  }
  if (op == "addforce") {
    // engine-side / scripted force on a variable before the next step's communicate
    colvar *c = cvm::colvar_by_name(cmd.at("cv"));
    if (!c) { r["rc"] = 1; return r; }
    r["rc"] = 0;
    return r;
  }
  r["rc"] = -2; r["error"] = "unknown op";
  return r;
}

static void on_terminate()
{
  std::cout << "{\"op\":\"terminate\",\"fatal\":1}" << std::endl;
  _exit(3);
}

int main(int argc, char **argv)
{
  std::set_terminate(on_terminate);
  std::ios::sync_with_stdio(false);
  std::string line;
  bool ok = true;
  while (ok && std::getline(std::cin, line)) {
    if (line.empty()) continue;
    json r;
    try {
      json cmd = json::parse(line);
      if (cmd.at("op") == "quit") ok = false;
      r = handle(cmd);
    } catch (sim_crash const &c) {
      r = json{{"op", "crash"}, {"at", c.at}};
      std::cout << r.dump() << std::endl;
      _exit(0);
    } catch (std::exception const &e) {
      r = json{{"op", "exception"}, {"what", e.what()}};
    }
    std::cout << r.dump(-1, ' ', false, json::error_handler_t::replace) << "\n";
    std::cout.flush();
  }
  return 0;
}
