------------------------------- MODULE Script -------------------------------
(***************************************************************************)
(* The scripting interface (C20) over the object model of Lifecycle.tla.   *)
(* The command table (names and argument-count bounds) is READ FROM THE    *)
(* RUNNING IMPLEMENTATION at check time (environment: CMDS).  A command is *)
(* invoked with an argument count and, for the colvar / bias prefixes, a   *)
(* target name.  Every invocation returns OK or Error and leaves the       *)
(* module usable; wrong argument counts and unknown targets are errors and *)
(* change nothing; delete / reset / config have the effect of the          *)
(* corresponding Lifecycle action.                                         *)
(***************************************************************************)
EXTENDS Lifecycle, Json, IOUtils

Cmds == ndJsonDeserialize(IOEnv.CMDS)       \* sequence of [name, scope, min, max]
CmdIdx == 1..Len(Cmds)
Scope(c) == Cmds[c].scope

VARIABLES last        \* the last invocation and its prescribed outcome
scvars == <<cvs, biases, last>>

\* argument-count classes around the bounds
Counts(c) == {n \in {Cmds[c].min - 1, Cmds[c].min, Cmds[c].max, Cmds[c].max + 1} : n >= 0}
Targets(c) == CASE Scope(c) = "colvar" -> cvs \cup {"nosuch"} [] Scope(c) = "bias" -> Dom(biases) \cup {"nosuch"} [] OTHER -> {"-"}
\* configurations offered to cv_config
Cf(k, nm, on) == [kind |-> k, name |-> nm, on |-> on]
NoConf == Cf("none", "", "")
Configs == {Cf("cv", "v1", ""), Cf("cv", "v2", ""), Cf("bias", "b1", "v1"), Cf("bias", "b2", "v1"), Cf("bias", "b3", "v2"), Cf("garbage", "", "")}

Outcome(c, n, tgt, conf) ==
  IF n < Cmds[c].min \/ n > Cmds[c].max THEN "error"
  ELSE IF Cmds[c].name \in {"colvar_help", "bias_help"} THEN "any"      \* documentation queries do not resolve their target
  ELSE IF Scope(c) = "colvar" /\ tgt \notin cvs THEN "error"
  ELSE IF Scope(c) = "bias" /\ tgt \notin Dom(biases) THEN "error"
  ELSE IF Cmds[c].name = "cv_config" THEN
         (CASE conf.kind = "garbage" -> "error"
            [] conf.kind = "cv" -> (IF conf.name \in cvs THEN "error" ELSE "ok")
            [] OTHER -> (IF conf.name \in Dom(biases) \/ conf.on \notin cvs THEN "error" ELSE "ok"))
  ELSE IF Cmds[c].name \in {"cv_reset", "colvar_delete", "bias_delete", "cv_list", "cv_version", "cv_getenergy", "colvar_value", "bias_energy",
                            "cv_savetostring", "cv_listcommands", "cv_getstepabsolute", "colvar_getappliedforce", "colvar_type", "bias_type",
                            "cv_getnumactiveatoms", "cv_getatomids", "colvar_getconfig", "bias_getconfig", "bias_state", "colvar_state", "cv_getconfig"} THEN "ok"
  ELSE "any"            \* the interface is total: OK or Error, nothing else

Invoke(c, n, tgt, conf) ==
  LET o == Outcome(c, n, tgt, conf) nm == Cmds[c].name IN
  /\ last' = [cmd |-> nm, n |-> n, tgt |-> tgt, conf |-> conf, out |-> o, pcvs |-> cvs, pbias |-> Dom(biases), pon |-> [b \in Dom(biases) |-> biases[b]]]
  /\ IF o # "ok" THEN UNCHANGED <<cvs, biases>>
     ELSE CASE nm = "cv_reset" -> Reset
            [] nm = "colvar_delete" -> DelCv(tgt)
            [] nm = "bias_delete" -> DelBias(tgt)
            [] nm = "cv_config" /\ conf.kind = "cv" -> AddCv(conf.name)
            [] nm = "cv_config" -> AddBias(conf.name, {conf.on})
            [] OTHER -> UNCHANGED <<cvs, biases>>
SInit == LInit /\ last = [cmd |-> "", n |-> 0, tgt |-> "-", conf |-> NoConf, out |-> "ok", pcvs |-> {}, pbias |-> {}, pon |-> << >>]
SNext == \E c \in CmdIdx : \E n \in Counts(c) : \E tgt \in Targets(c) :
           \E conf \in (IF Cmds[c].name = "cv_config" /\ n = 1 THEN Configs ELSE {NoConf}) : Invoke(c, n, tgt, conf)
SSpec == SInit /\ [][SNext]_scvars
\* after any command sequence the object model is consistent
Consistent == NoDangling
Total == last.out \in {"ok", "error", "any"}
=============================================================================
