SPECIFICATION FairSpec
CONSTANTS
  Items <- Items_Q
  Threads <- Threads_Q
  ErrItems <- Err_Q
INVARIANTS Confluent LockOK DepthOK OnceOK Emit
PROPERTY Termination
\* vacuity: on
CHECK_DEADLOCK FALSE
