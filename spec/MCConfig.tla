------------------------------ MODULE MCConfig ------------------------------
(* Enumerates the cases of C09 as a state graph and evaluates the verdict on every state:     *)
(*   kind "layout": base configuration x layout          (no successors)                      *)
(*   kind "mut":    base configuration x keyword-level mutation, rendered plainly             *)
(*   kind "str":    every token string over Alphabet up to MaxLen (successor = append)        *)
(*   kind "edit":   a rendered base configuration after up to MaxEdits token edits            *)
EXTENDS Config, Json
CONSTANTS MaxLen, MaxEdits, Alphabet, EditAlphabet, EditBases
VARIABLES kind, toks, info, n
mvars == <<kind, toks, info, n>>

Plain(i) == Flatten(Base[i], PlainLayout)
A_Q == {"colvar", "harmonic", "{", "}", NL, "name", "x", "width", "2", "colvarsTrajFrequency"}
A_T == A_Q \cup {CM}
EA_Q == {"{", "}", NL, "abc", "width", "x"}
EA_T == {"{", "}", NL, "abc"}
EB_Q == {1, 3}
EB_T == {3}

\* inputs that were once mishandled (found by the thorough tier's double edits), checked in every tier
Regress == { <<"colvar", "}", "{", NL, "name", "x", NL, "distanceZ", "{", NL, "main", "{", NL, "atomNumbers", "2", NL, "}", NL, "ref", "{", NL, "dummyAtom", "(0,0,1)", NL, "}", NL, "}", NL, "}", "{", NL>>,
             <<"}", "colvar", "{", NL, "name", "x", NL, "}", "{", NL>>,
             <<"colvarsTrajFrequency", "2", NL, "}", NL, "colvar", "{", NL, "name", "x", NL, "{", NL>> }
NoInfo == [base |-> 0, lay |-> PlainLayout, m |-> "-"]
\* seeds spread the expansion of the case families over the workers (initial states are computed by one thread)
MCInit ==
  /\ toks = <<>> /\ n = 0
  /\ \/ \E i \in DOMAIN Base, bl \in BOOLEAN, cm \in BOOLEAN, sp \in BOOLEAN :
          kind = "seedL" /\ info = [base |-> i, lay |-> [PlainLayout EXCEPT !.blank = bl, !.comment = cm, !.split = sp], m |-> "-"]
     \/ \E i \in DOMAIN Base : kind = "seedM" /\ info = [NoInfo EXCEPT !.base = i]
     \/ kind = "str" /\ info = NoInfo
     \/ kind = "seedR" /\ info = NoInfo
     \/ \E i \in EditBases : kind = "seedE" /\ info = [NoInfo EXCEPT !.base = i]

MCNext ==
  \/ /\ kind = "seedL" /\ kind' = "layout" /\ n' = 0
     /\ \E L \in Layouts : L.blank = info.lay.blank /\ L.comment = info.lay.comment /\ L.split = info.lay.split
                            /\ info' = [info EXCEPT !.lay = L] /\ toks' = Flatten(Base[info.base], L)
  \/ /\ kind = "seedM" /\ kind' = "mut" /\ n' = 0
     /\ \E x \in Muts(Base[info.base], "top") : toks' = Flatten(x.items, PlainLayout) /\ info' = [info EXCEPT !.m = x.m]
  \/ kind = "seedR" /\ kind' = "regress" /\ toks' \in Regress /\ n' = 0 /\ UNCHANGED info
  \/ kind = "seedE" /\ kind' = "edit" /\ toks' = Plain(info.base) /\ n' = 0 /\ UNCHANGED info
  \/ kind = "str" /\ n < MaxLen /\ \E a \in Alphabet : toks' = Append(toks, a) /\ n' = n + 1 /\ UNCHANGED <<kind, info>>
  \/ kind = "edit" /\ n < MaxEdits /\ toks' \in Edits(toks, EditAlphabet) /\ n' = n + 1 /\ UNCHANGED <<kind, info>>
MCSpec == MCInit /\ [][MCNext]_mvars

V == Verdict(toks)
\* properties of the specification itself
TypeOK == V \in {"OK", "R", "Any"}
LayoutFree == kind = "layout" => V = "OK" /\ Model(toks) = Model(Plain(info.base))
MutRejected == kind = "mut" => V = "R"
UnbalancedRejected == ~Balanced(toks) => V = "R"
AcceptBalanced == V = "OK" => Balanced(toks) /\ Cnt(StripComments(toks), 1, 0) = 0

Emit == kind \in {"seedL", "seedM", "seedE", "seedR"} \/ PrintT(<<"BEH", ToJson([kind |-> kind, toks |-> toks, v |-> V, why |-> VerdictW(toks).why, base |-> info.base, lay |-> info.lay, m |-> info.m,
                                ncv |-> IF V = "OK" THEN NumOf(toks, "colvar") ELSE 0,
                                nb |-> IF V = "OK" THEN NumOf(toks, "harmonic") ELSE 0])>>)

\* vacuity witnesses
Witness1 == kind = "str" /\ V = "OK" /\ n >= 2
NoWitness1 == ~Witness1
Witness2 == kind = "edit" /\ V = "OK" /\ n >= 1 /\ Model(toks) # Model(Plain(info.base))
NoWitness2 == ~Witness2
Witness3 == kind = "edit" /\ V = "R" /\ Balanced(toks)
NoWitness3 == ~Witness3
Witness4 == kind = "str" /\ V = "Any"
NoWitness4 == ~Witness4
=============================================================================
