-------------------------------- MODULE Corr --------------------------------
(***************************************************************************)
(* Time-correlation functions of non-scalar variables (C19, "all value     *)
(* types"): coordinate, velocity and second-Legendre-polynomial            *)
(* autocorrelation of a 3-vector, a unit vector or (velocity only) a       *)
(* scalar.  Mechanism: colvar::calc_colvar_properties() (finite-difference *)
(* velocity: undefined at the first step of a job, value minus previous    *)
(* value afterwards, the previous value being refreshed at the end of      *)
(* every call), colvar::calc_acf() (the very first call only allocates     *)
(* corrFuncStride interleaved histories; each later call at a new step     *)
(* processes one item - value or velocity - against the history selected   *)
(* by the rotating pointer, and only histories holding corrFuncLength      *)
(* items contribute a frame), calc_vel_acf / calc_coor_acf /               *)
(* calc_p2coor_acf and colvarvalue::inner_opt / p2leg_opt.                 *)
(*                                                                         *)
(* Exact lattice: vectors with integer components whose Euclidean norm is  *)
(* 3 or 6, so that 36 cos(angle) and 2592 P2(cos(angle)) are integers.     *)
(*   kind "vec"   : the value is the vector v itself                       *)
(*   kind "unit"  : the value is v / |v| (the harness places the atom at v)*)
(*   kind "scalar": the value is the first component                       *)
(* The PROPERTY is stated over "xhist", the values the variable took at    *)
(* every physical step, which the mechanism never reads.                   *)
(*                                                                         *)
(* Cross correlation (p.cross, corrFuncWithColvar): a second variable y    *)
(* whose value is the first one's with its components rotated (the harness *)
(* places a second atom there).  Textbook: C(k) = < x(t) . y(t - k S) >.   *)
(* The code (named deviation "cross-correlation-of-other-variable-only")   *)
(* stores and correlates the OTHER variable's values only, with this       *)
(* variable's own square at lag 0; the mechanism below follows the code.   *)
(***************************************************************************)
EXTENDS Integers, Sequences, FiniteSets, TLC

CONSTANTS VS, ParamSet, MaxSteps, MaxRuns

VARIABLES p, it, rel, started, runs, lastX, prevRel,
          xOld, vel,                                   \* finite-difference velocity state
          acfLists, acfPtr, acfN, acfSum, acfInit,     \* correlation mechanism
          asamp,                                       \* history: items processed by the correlation function
          xhist                                        \* history: value at each physical step (one entry per step)
cvars == <<p, it, rel, started, runs, lastX, prevRel, xOld, vel, acfLists, acfPtr, acfN, acfSum, acfInit, asamp, xhist>>

LC == p.clen
SC == p.cstride
Kind == p.kind        \* "vec" | "unit" | "scalar"
CT == p.ctype         \* "coor" | "vel" | "p2"

Dot(a, b) == a[1] * b[1] + a[2] * b[2] + a[3] * b[3]
Sub3(a, b) == <<a[1] - b[1], a[2] - b[2], a[3] - b[3]>>
Zero3 == <<0, 0, 0>>
Norm(v) == LET n2 == Dot(v, v) IN
           IF n2 = 9 THEN 3 ELSE IF n2 = 36 THEN 6 ELSE Assert(FALSE, <<"vector off the lattice", v>>)
\* 36 x cosine of the angle between two lattice vectors
Cos36(a, b) == Dot(a, b) * (36 \div (Norm(a) * Norm(b)))
\* the variable's value as seen by the correlation function ("scalar": first component)
Val(v) == IF Kind = "scalar" THEN <<v[1], 0, 0>> ELSE v
Cross == p.cross
Other(v) == <<v[2], v[3], v[1]>>          \* value of the second variable when the first one is v

\* scaled contribution of the pair (now, earlier); Self = lag 0
\*   coor, vec/scalar : dot product                       (scale 1)
\*   coor, unit       : 36 cos                            (scale 36)
\*   vel              : dot product of velocities         (scale 1; not offered for unit)
\*   p2               : 2592 P2(cos) = 3 (36 cos)^2 - 1296   (scale 2592; P2(1) = 1 at lag 0)
Pair(a, b) == CASE CT = "p2" -> 3 * Cos36(a, b) * Cos36(a, b) - 1296
                [] CT = "coor" /\ Kind = "unit" -> Cos36(a, b)
                [] OTHER -> Dot(a, b)
Self(a) == CASE CT = "p2" -> 2592
             [] CT = "coor" /\ Kind = "unit" -> 36
             [] OTHER -> Dot(a, a)

Take(s, n) == SubSeq(s, 1, IF Len(s) < n THEN Len(s) ELSE n)

Calc(xraw, newRel) ==
  LET x == Val(xraw)
      v == IF newRel = 0 THEN Zero3 ELSE Sub3(x, xOld)
      y == IF Cross THEN Other(x) ELSE x        \* cfcv->value(): the variable named by corrFuncWithColvar
      item == IF CT = "vel" THEN v ELSE y
      acfDo == acfInit /\ (newRel > prevRel)
      lst == acfLists[acfPtr]
      full == Len(lst) >= LC
      \* lag 0: "x.norm2()" is THIS variable's own value (coordinate type), the item's for the others
      sum1 == [k \in 1..(LC + 1) |-> acfSum[k] + (IF k = 1 THEN Self(IF CT = "coor" THEN x ELSE item) ELSE Pair(item, lst[k - 1]))]
  IN /\ vel' = v /\ xOld' = x
     /\ acfInit' = TRUE
     /\ acfSum' = IF acfDo /\ full THEN sum1 ELSE acfSum
     /\ acfN' = IF acfDo /\ full THEN acfN + 1 ELSE acfN
     /\ acfLists' = IF acfDo THEN [acfLists EXCEPT ![acfPtr] = Take(<<item>> \o lst, LC)] ELSE acfLists
     /\ acfPtr' = IF acfDo THEN (acfPtr % SC) + 1 ELSE acfPtr
     /\ asamp' = IF acfDo THEN Append(asamp, item) ELSE asamp
     /\ lastX' = xraw /\ prevRel' = newRel

InitWith(pp) == /\ p = pp /\ it = 0 /\ rel = 0 /\ started = FALSE /\ runs = 1 /\ lastX = Zero3 /\ prevRel = -1
                /\ xOld = Zero3 /\ vel = Zero3
                /\ acfLists = [i \in 1..pp.cstride |-> <<>>] /\ acfPtr = 1 /\ acfN = 0
                /\ acfSum = [k \in 1..(pp.clen + 1) |-> 0] /\ acfInit = FALSE /\ asamp = <<>> /\ xhist = <<>>
Init == \E pp \in ParamSet : InitWith(pp)
First(x) == /\ ~started /\ started' = TRUE /\ rel' = 0 /\ UNCHANGED <<it, runs, p>> /\ Calc(x, 0)
            /\ xhist' = <<Val(x)>>
Step(x) == /\ started /\ it < MaxSteps /\ it' = it + 1 /\ rel' = rel + 1 /\ UNCHANGED <<started, runs, p>> /\ Calc(x, rel + 1)
           /\ xhist' = Append(xhist, Val(x))
\* a new run command: the engine repeats the current step with unchanged coordinates
NewRun == /\ started /\ runs < MaxRuns /\ runs' = runs + 1 /\ UNCHANGED <<it, rel, started, p, xhist>> /\ Calc(lastX, rel)
Next == (\E x \in VS : First(x) \/ Step(x)) \/ NewRun
Spec == Init /\ [][Next]_cvars

(***************************************************************************)
(* Property: textbook definitions over xhist.                              *)
(* item(j), j = 1..it : value at step j (coordinate types) or              *)
(*                      value(j) - value(j-1) (velocity, dt = 1)           *)
(* frames = items with LC predecessors at spacing SC;                      *)
(* C(k) = average over frames of Pair(item(j), item(j - k SC)).            *)
(***************************************************************************)
ItemAt(j) == IF CT = "vel" THEN Sub3(xhist[j + 1], xhist[j]) ELSE xhist[j + 1]     \* xhist[1] is step 0
OtherAt(j) == IF Cross THEN Other(ItemAt(j)) ELSE ItemAt(j)
NItems == Len(xhist) - 1
Frames == {j \in 1..NItems : (j - 1) \div SC >= LC}
RECURSIVE SumFrames(_, _)
SumFrames(T, k) == IF T = {} THEN 0
                   ELSE LET j == CHOOSE jj \in T : TRUE
                        IN (IF k = 0 THEN Self(ItemAt(j)) ELSE Pair(ItemAt(j), ItemAt(j - k * SC))) + SumFrames(T \ {j}, k)
\* each physical step after the first is processed exactly once, however the run is segmented
ItemsOK == started => (Len(asamp) = NItems /\ \A j \in 1..NItems : asamp[j] = OtherAt(j))
AcfOK == (started /\ ~Cross) => (acfN = Cardinality(Frames) /\ \A k \in 0..LC : acfSum[k + 1] = SumFrames(Frames, k))
\* textbook cross correlation: this variable now, the other one k strides earlier (k = 0: both now)
RECURSIVE SumCross(_, _)
SumCross(T, k) == IF T = {} THEN 0
                  ELSE LET j == CHOOSE jj \in T : TRUE IN Pair(ItemAt(j), OtherAt(j - k * SC)) + SumCross(T \ {j}, k)
CrossTextbook == \A k \in 0..LC : acfSum[k + 1] = SumCross(Frames, k)
\* what the code computes instead (scope of the named deviation): the other variable's autocorrelation, own square at lag 0
RECURSIVE SumOther(_, _)
SumOther(T, k) == IF T = {} THEN 0
                  ELSE LET j == CHOOSE jj \in T : TRUE
                       IN (IF k = 0 THEN Self(IF CT = "coor" THEN ItemAt(j) ELSE OtherAt(j)) ELSE Pair(OtherAt(j), OtherAt(j - k * SC))) + SumOther(T \ {j}, k)
CrossScope == (started /\ Cross) => (acfN = Cardinality(Frames) /\ \A k \in 0..LC : acfSum[k + 1] = SumOther(Frames, k))
=============================================================================
