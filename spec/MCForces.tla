------------------------------ MODULE MCForces ------------------------------
EXTENDS Forces, Json
C(main, ref, ax) == [main |-> main, ref |-> ref, ax |-> ax]
P(m, c1, c2, k, x0, kl, comp1) == [m |-> m, c1 |-> c1, c2 |-> c2, k |-> k, x0 |-> x0, kl |-> kl, comp1 |-> comp1, comp2 |-> C({1}, {3}, 1)]
Shapes == { C({1}, {3}, 3), C({1, 2}, {3}, 3), C({1, 2}, {2, 3}, 3), C({2}, {1, 2}, 3) }
Ms == { <<1, 1, 1>>, <<1, 3, 1>>, <<3, 1, 1>> }
PS_Q == { P(m, cc[1], cc[2], kk[1], kk[2], kk[3], sh) : m \in Ms, cc \in {<<1, 0>>, <<-2, 1>>}, kk \in {<<2, 1, 0>>, <<0, 0, 3>>, <<1, 0, -1>>}, sh \in Shapes }
PS_OK == PS_Q
ZS_Q == {-1, 0, 2}
XS_Q == {0, 3}
XS_T == {0, 1, 3}
Emit == pos = Unset \/ PrintT(<<"BEH", ToJson([p |-> [m |-> p.m, c1 |-> p.c1, c2 |-> p.c2, k |-> p.k, x0 |-> p.x0, kl |-> p.kl,
                                       main |-> p.comp1.main, ref |-> p.comp1.ref],
                                pos |-> pos, e |-> E512(pos), f |-> [a \in Atoms |-> [ax \in 1..3 |-> F256(a, ax, pos)]]])>>)
Witness1 == pos # Unset /\ p.c2 # 0 /\ p.k # 0 /\ E512(pos) # 0 /\ F256(2, 3, pos) # 0 /\ F256(1, 1, pos) # 0
NoWitness1 == ~Witness1
=============================================================================
