---------------------------- MODULE OutputTrace ----------------------------
EXTENDS Output, Json, IOUtils
TraceLog == ndJsonDeserialize(IOEnv.TRACE)
VARIABLE l
\* the lines the implementation appended to its files during the call must be the lines the specification appends
NewTraj == SubSeq(traj', Len(traj) + 1, Len(traj'))
NewRavg == SubSeq(ravg', Len(ravg) + 1, Len(ravg'))
Matches(e) ==
  /\ Len(e.traj) = Len(NewTraj)
  /\ \A i \in 1..Len(e.traj) : /\ e.traj[i].k = NewTraj[i].k /\ e.traj[i].ncols = NewTraj[i].ncols
                               /\ (e.traj[i].k = "data" => e.traj[i].step = NewTraj[i].step /\ e.traj[i].x = NewTraj[i].x)
  /\ (e.acfn >= 0 => (acfN' = e.acfn /\ \A k \in 1..(LC + 1) : acfSum'[k] = e.acfs[k]))
  /\ Len(e.ravg) = Len(NewRavg)
  /\ \A i \in 1..Len(e.ravg) : e.ravg[i].step = NewRavg[i].step /\ e.ravg[i].sum = NewRavg[i].sum /\ e.ravg[i].var = NewRavg[i].var
ResetTo(pp) == /\ p' = pp /\ it' = pp.start /\ rel' = 0 /\ cont' = FALSE /\ started' = FALSE /\ runs' = 1 /\ lastX' = 0 /\ prevRel' = -1
               /\ biasOn' = FALSE /\ labelDue' = TRUE /\ traj' = <<>> /\ window' = <<>> /\ ravg' = <<>> /\ samples' = <<>>
               /\ active' = TRUE /\ shownX' = 0 /\ quirk' = FALSE
               /\ acfLists' = [i \in 1..pp.cstride |-> <<>>] /\ acfPtr' = 1 /\ acfN' = 0 /\ acfSum' = [k \in 1..(pp.clen + 1) |-> 0] /\ acfInit' = FALSE /\ asamp' = <<>>
TInit == l = 2 /\ InitWith(TraceLog[1].p)
TStep == /\ l <= Len(TraceLog) /\ l' = l + 1
         /\ LET e == TraceLog[l] IN
            \/ e.e = "Reset" /\ ResetTo(e.p)
            \/ e.e = "First" /\ First(e.x) /\ Matches(e)
            \/ e.e = "Step" /\ Step(e.x) /\ Matches(e)
            \/ e.e = "NewRun" /\ NewRun /\ Matches(e)
            \/ e.e = "Toggle" /\ ToggleBias
TSpec == TInit /\ [][TStep]_<<ovars, l>>
Progress == PrintT(<<"MAXL", l>>)
QuirkReport == quirk => PrintT(<<"QUIRK", "stale-value-after-deleting-last-bias">>)
=============================================================================
