SPECIFICATION Spec
CONSTANTS
  Obj <- ObjT
  KindOf <- KindOfT
  Feat <- FeatT
  FType <- FTypeT
  ReqSelf <- ReqSelfT
  ReqAlt <- ReqAltT
  ReqChild <- ReqChildT
  ReqExcl <- ReqExclT
  MaxIt = 6
  MaxOps = 9
  AllowAsleepDelete = FALSE
INVARIANTS Inv1 Inv2 Inv3 Inv4 Inv5 NoNegative NoLeak
\* vacuity: on
CHECK_DEADLOCK FALSE
