-------------------------- MODULE TotalForceTrace --------------------------
EXTENDS TotalForce, Json, IOUtils
TraceLog == ndJsonDeserialize(IOEnv.TRACE)
VARIABLES l, dv      \* dv: the named deviation zero-total-subtract was needed at the last event
ResetTo(pp) == /\ p' = pp /\ it' = 0 /\ started' = FALSE /\ rel' = 0 /\ ft' = 0 /\ fOld' = 0
               /\ pend' = [fa |-> 0, lam |-> 0, j |-> 0, valid |-> FALSE] /\ hist' = <<>>
TInit == l = 2 /\ dv = FALSE /\ InitWith(TraceLog[1].p)
TStep == /\ l <= Len(TraceLog) /\ l' = l + 1
         /\ LET e == TraceLog[l] IN
            \/ e.e = "Reset" /\ ResetTo(e.p) /\ dv' = FALSE
            \/ e.e = "First" /\ First(e.fa, e.lam, e.j) /\ ft' = e.ft /\ dv' = FALSE
            \/ e.e = "Step" /\ \E dev \in BOOLEAN : StepD(e.fa, e.lam, e.j, dev) /\ ft' = e.ft
                                                    /\ (dev => (Sub /\ (1 + pend.lam) * pend.fa + pend.j = 0 /\ fOld # 0 /\ PrintT(<<"DEV", l>>)))
                                                    /\ dv' = dev
            \/ e.e = "Present" /\ Present(e.fa, e.lam, e.j) /\ ft' = e.ft /\ dv' = FALSE
TSpec == TInit /\ [][TStep]_<<tvars, l, dv>>
TLate == dv \/ LateOK
TInverse == dv \/ InverseOK
Progress == PrintT(<<"MAXL", l>>)
=============================================================================
