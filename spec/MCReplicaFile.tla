--------------------------- MODULE MCReplicaFile ---------------------------
EXTENDS ReplicaFile
Witness1 == RWitness1
NoWitness1 == NoRWitness1
=============================================================================
