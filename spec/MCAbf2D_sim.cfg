SPECIFICATION MCSpec
CONSTANTS
  NB1 = 3
  NB2 = 2
  XS1 <- X1_B
  XS2 <- X2_B
  FS2 <- FS2_B
  ParamSet <- PS_Sim
  MaxSteps = 9
  MaxRuns = 3
  D = 10080
  EmitLen = 9
INVARIANTS Emit CountExact SumExact DroppedOutside AppliedOK OutsideZero NoBiasZero CapOK MeanOK
CHECK_DEADLOCK FALSE
