SPECIFICATION SSpec
CONSTANTS
  CvNames = {}
  BiasNames = {}
INVARIANTS Consistent Total
\* vacuity: on
CHECK_DEADLOCK FALSE
