----------------------------- MODULE ResumeMeta -----------------------------
(* C03 for metadynamics: uninterrupted copy A and resumed copy B of Meta.tla *)
EXTENDS MetaB
VARIABLE resumes
PM(w, hf, gf, ug, kh, hl, per) ==
  [wide |-> w, hillFreq |-> hf, gridFreq |-> gf, useGrids |-> ug, keepHills |-> kh, hardLower |-> hl, periodic |-> per]
PS_R == { PM(w, fr[1], fr[2], TRUE, kh, FALSE, FALSE) : w \in BOOLEAN, fr \in {<<1, 1>>, <<1, 2>>, <<2, 2>>}, kh \in BOOLEAN }
        \cup { PM(FALSE, 1, 1, FALSE, FALSE, FALSE, FALSE), PM(FALSE, 1, 2, TRUE, FALSE, FALSE, TRUE) }
XLoR == -3
pvars == <<vars, varsB, resumes>>
PInit == /\ \E pp \in ParamSet : InitWith(pp) /\ InitWithB(pp)
         /\ resumes = 0
PFirst(P) == First(P) /\ FirstB(P) /\ UNCHANGED resumes
PStep(P) == Step(P) /\ StepB(P) /\ UNCHANGED resumes
PNewRun == NewRun /\ NewRunB /\ UNCHANGED resumes
PResume == RestartB /\ UNCHANGED <<mech, deposited, tab, quirk>> /\ resumes' = resumes + 1
PNext == \/ \E P \in XLo..XHi : (p.wide => P % 2 = 1) /\ (PFirst(P) \/ PStep(P))
         \/ PNewRun \/ PResume
PSpec == PInit /\ [][PNext]_pvars
\* saving projects the pending hills of copy B: from then on B looks them up at the bin centre, A analytically,
\* until A's own projection; the comparison is therefore made when neither copy has pending hills, or off the grid
NoPending == nb > Len(hills) /\ nbB > Len(hillsB)
Indistinguishable == (started /\ quirk = {} /\ quirkB = {} /\ (NoPending \/ ~UseGrids \/ ~InGrid(Pos))) => (energy = energyB /\ force = forceB)
SameDeposits == started => deposited = depositedB
PView == <<mech, mechB, p, resumes, quirk, quirkB>>
\* vacuity witnesses: the check searches a state satisfying each Witness<i> (a violation of NoWitness<i>)
Witness1 == resumes > 0 /\ quirkB = {} /\ energyB > 0 /\ relB > 0
NoWitness1 == ~Witness1
PSpecW == (PInit) /\ [][PNext]_pvars
=============================================================================
