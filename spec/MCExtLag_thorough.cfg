SPECIFICATION MCSpec
CONSTANTS
  XS <- XS_Q
  FB <- FB_Q
  RS <- RS_Q
  ParamSet <- PS_Q
  MaxSteps = 4
  MaxRuns = 2
  EmitLen = 5
VIEW View
INVARIANTS FollowsIntegrator AtomsFeelSpring Bounded NoDrift
\* vacuity: on
CHECK_DEADLOCK FALSE
