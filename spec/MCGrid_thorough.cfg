SPECIFICATION MCSpec
CONSTANTS
  VS <- VS_T
  ParamSet <- PS_Q
  MaxSteps = 3
  MaxRuns = 2
  EmitLen = 4
INVARIANTS CountsOK IntervalOK TotalOK Wit
POSTCONDITION WitPost
CHECK_DEADLOCK FALSE
