SPECIFICATION Spec
CONSTANTS
  Obj <- ObjT
  KindOf <- KindOfT
  Feat <- FeatT
  FType <- FTypeT
  ReqSelf <- ReqSelfT
  ReqAlt <- ReqAltT
  ReqChild <- ReqChildT
  ReqExcl <- ReqExclT
  MaxIt = 4
  MaxOps = 7
  AllowAsleepDelete = FALSE
INVARIANTS Inv1 Inv2 Inv3 Inv4 Inv5 NoNegative NoLeak
\* vacuity: on
CHECK_DEADLOCK FALSE
