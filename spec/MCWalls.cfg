SPECIFICATION Spec
CONSTANTS
  Period = 8
INVARIANTS NonNeg PeriodicInv BetweenWallsZero Gradient ClosestWall Emit
CHECK_DEADLOCK FALSE
