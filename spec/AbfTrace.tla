----------------------------- MODULE AbfTrace -----------------------------
(* Validation of executions recorded from the real code against Abf.tla.   *)
(* Every event is one engine call; its logged post-state must equal the    *)
(* post-state of the corresponding spec action.                            *)
EXTENDS Abf, Json, IOUtils

TraceLog == ndJsonDeserialize(IOEnv.TRACE)
VARIABLE l

Ev == TraceLog[l]

Matches(e) == /\ it' = e.it
              /\ \A b \in Bins : samples'[b] = e.s[b + 1] /\ gsum'[b] = e.g[b + 1]
              /\ abfF' = e.F
              /\ ft' = e.ft

\* spelled-out reset to the initial state with the logged parameters
ResetTo(pp) ==
  /\ p' = pp /\ it' = 0 /\ rel' = 0 /\ cont' = FALSE /\ started' = FALSE /\ runs' = 1
  /\ lastX' = 0 /\ lastSys' = 0 /\ prevTotal' = 0 /\ havePrev' = FALSE
  /\ samples' = [b \in Bins |-> 0] /\ gsum' = [b \in Bins |-> 0]
  /\ bin' = 0 /\ forceBin' = 0 /\ abfF' = 0 /\ ft' = 0 /\ fOld' = 0
  /\ phys' = [s \in 0..MaxSteps |-> Blank] /\ delivered' = {} /\ quirk' = FALSE

TInit == /\ l = 2 /\ InitWith(TraceLog[1].p)

TStep ==
  /\ l <= Len(TraceLog)
  /\ l' = l + 1
  /\ LET e == Ev IN
     \/ /\ e.e = "Reset" /\ ResetTo(e.p)
     \/ /\ e.e = "First" /\ UNCHANGED p /\ First(e.x, e.f * D) /\ Matches(e)
     \/ /\ e.e = "Step" /\ UNCHANGED p
        /\ \E dev \in {FALSE, TRUE} :
             /\ (dev => ZeroTotalApplies(rel + 1, havePrev))
             /\ StepD(e.x, e.f * D, dev)
             /\ Matches(e)
             /\ (dev => PrintT(<<"DEV", l>>))
     \/ /\ e.e = "NewRun" /\ UNCHANGED p /\ NewRun /\ Matches(e)
     \/ /\ e.e = "Restart" /\ UNCHANGED p /\ Restart /\ Matches(e)

TSpec == TInit /\ [][TStep]_<<vars, l>>

NotAccepted == l <= Len(TraceLog)
Progress == PrintT(<<"MAXL", l>>)

\* the design-level invariants are evaluated on every state of the recorded execution
\* (when the named deviation fired, the exact sums are known to be off)
TCount == quirk \/ (CountOK /\ CountExact)
TSum == quirk \/ SumExact
=============================================================================
