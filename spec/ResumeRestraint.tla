--------------------------- MODULE ResumeRestraint ---------------------------
(* C03 for restraints with schedules: uninterrupted copy A and resumed copy B of Restraint.tla *)
EXTENDS RestraintB
VARIABLE resumes
PRr(kd, n, ns, eq, ex, w, c0, c1, k0, k1) ==
  [kind |-> kd, n |-> n, ns |-> ns, equil |-> eq, exp |-> ex, dec |-> FALSE, work |-> w, c0 |-> c0, c1 |-> c1, k0 |-> k0, k1 |-> k1]
PS_R == { PRr("fixed", 1, 1, 0, 1, FALSE, 1, 1, 2, 2),
          PRr("cmove", 2, 1, 0, 1, TRUE, 0, 4, 1, 1), PRr("cmove", 3, 1, 0, 1, TRUE, 3, 0, 2, 2),
          PRr("cstage", 2, 2, 0, 1, FALSE, 0, 4, 1, 1), PRr("cstage", 3, 1, 0, 1, FALSE, 1, 2, 2, 2),
          PRr("kmove", 2, 1, 0, 1, TRUE, 1, 1, 0, 2), PRr("kmove", 2, 1, 0, 2, TRUE, 1, 1, 1, 5),
          PRr("kstage", 2, 2, 0, 1, FALSE, 1, 1, 0, 2), PRr("kstage", 2, 2, 1, 1, FALSE, 1, 1, 0, 2), PRr("kstage", 3, 1, 2, 2, FALSE, 0, 0, 1, 3) }
XS_R == {-1, 0, 2}
pvars == <<vars, varsB, resumes>>
PInit == /\ \E pp \in ParamSet : InitWith(pp) /\ InitWithB(pp)
         /\ resumes = 0
PFirst(x) == First(x) /\ FirstB(x) /\ UNCHANGED resumes
PStep(x) == Step(x) /\ StepB(x) /\ UNCHANGED resumes
PNewRun == NewRun /\ NewRunB /\ UNCHANGED resumes
PResume == RestartB /\ UNCHANGED <<mech, phys, quirk>> /\ resumes' = resumes + 1
PNext == \/ \E x \in XS : PFirst(x) \/ PStep(x)
         \/ PNewRun \/ PResume
PSpec == PInit /\ [][PNext]_pvars
Indistinguishable == (started /\ quirk = {} /\ quirkB = {}) =>
                       (cen = cenB /\ k = kB /\ stage = stageB /\ energy = energyB /\ force = forceB /\ work = workB /\ tiout = tioutB)
PView == <<mech, mechB, p, resumes, quirk, quirkB>>
\* vacuity witnesses: the check searches a state satisfying each Witness<i> (a violation of NoWitness<i>)
Witness1 == resumes > 0 /\ quirkB = {} /\ workB # 0 /\ relB > 0
NoWitness1 == ~Witness1
Witness2 == resumes > 0 /\ quirkB = {} /\ tioutB # <<>>
NoWitness2 == ~Witness2
PSpecW == (PInit) /\ [][PNext]_pvars
=============================================================================
