----------------------------- MODULE Restraint -----------------------------
(***************************************************************************)
(* Harmonic restraint on one scalar variable with a time schedule (C06,    *)
(* and the restraint part of C03): moving centre (continuous / staged),    *)
(* changing force constant (continuous / staged with TI output), the       *)
(* accumulated work.  Mechanism variables follow                           *)
(* colvarbias_restraint_centers_moving / _k_moving (first_step, stage,     *)
(* centers_incr, force_k_incr, acc_work, restraint_FE).  The PROPERTY      *)
(* gives centre, force constant and stage as functions of the step number  *)
(* alone and the work / TI averages as sums over the physical steps        *)
(* (history variable phys), each counted once.                             *)
(*                                                                         *)
(* Lattice: variable values and centres are integers (width 1); the force  *)
(* constant is scaled by KS = N*N*NS so that lambda^exp * (k1-k0) is an    *)
(* integer; energies and work are scaled by 2*KS.                          *)
(***************************************************************************)
EXTENDS Integers, Sequences, FiniteSets, TLC

CONSTANTS XS, ParamSet, MaxSteps, MaxRuns

VARIABLES p,
          it, rel, cont, started, lastX, runs,
          cen, k, stage, cincr, kincr, work, fe,      \* mechanism
          energy, force, tiout,                       \* outputs of the step
          phys,                                       \* history: step -> value of the variable
          quirk                                       \* history: names of known deviations that were applicable

mech == <<it, rel, cont, started, lastX, runs, cen, k, stage, cincr, kincr, work, fe, energy, force, tiout>>
vars == <<p, mech, phys, quirk>>

Kind == p.kind          \* "fixed" | "cmove" | "cstage" | "kmove" | "kstage"
N == p.n                \* targetNumSteps
NS == p.ns              \* targetNumStages (staged kinds)
Equil == p.equil        \* targetEquilSteps
Exp == p.exp            \* lambdaExponent (1 or 2)
Dec == p.dec            \* decoupling
C0 == p.c0
C1 == p.c1
K0 == p.k0
K1 == p.k1
KS == N * N * NS        \* scale of force constants
EDiv(a, b) == IF a % b = 0 THEN a \div b ELSE Assert(FALSE, <<"inexact division", a, b>>)

\* lambda^Exp * (K1 - K0) * KS for lambda = a / b
KOfLambda(a, b) == IF Exp = 1 THEN K0 * KS + EDiv((K1 - K0) * KS * a, b)
                   ELSE K0 * KS + EDiv((K1 - K0) * KS * a * a, b * b)
StageLambda(s) == IF Dec THEN NS - s ELSE s      \* numerator over NS

(***************************************************************************)
(* The documented schedules, as functions of the absolute step t           *)
(* (first step of the schedule is 0).                                      *)
(***************************************************************************)
Min(a, b) == IF a < b THEN a ELSE b
CenAt(t) == CASE Kind = "cmove"  -> C0 + EDiv((C1 - C0) * Min(t, N), N)
              [] Kind = "cstage" -> IF t = 0 THEN C0 ELSE C0 + EDiv((C1 - C0) * Min((t - 1) \div N, NS), NS)
              [] OTHER -> C0
StageAtK(t) == Min(IF t = 0 THEN 0 ELSE (t \div N), NS)     \* stage in force from the end of step t onwards: after t = jN the stage is j
\* force constant used for the energy AT step t
KAt(t) == CASE Kind = "kmove"  -> KOfLambda(IF Dec THEN N - Min(t, N) ELSE Min(t, N), N)
            [] Kind = "kstage" -> KOfLambda(StageLambda(Min(IF t = 0 THEN 0 ELSE (t \div N), NS)), NS)
            [] OTHER -> K0 * KS

\* 2*KS*U for force constant kk (scaled) at distance d
E2(kk, d) == kk * d * d

(***************************************************************************)
(* One update, as colvarbias_restraint_harmonic::update()                  *)
(***************************************************************************)
Update(x, t, newRel, newCont) ==
  LET \* ---- centres
      cstageDo == Kind = "cstage" /\ stage <= NS /\ newRel > 0 /\ (t % N = 1)
      cmoveDo == Kind = "cmove" /\ t <= N
      cenNew == IF cstageDo THEN C0 + EDiv((C1 - C0) * stage, NS)
                ELSE IF cmoveDo THEN C0 + EDiv((C1 - C0) * t, N) ELSE cen
      cincr1 == IF (cstageDo \/ cmoveDo) /\ newRel # 0 THEN cenNew - cen ELSE 0
      stageC == IF cstageDo THEN stage + 1 ELSE stage
      \* ---- force constant
      kInit == IF Kind = "kstage" /\ t = 0 THEN KOfLambda(StageLambda(0), NS) ELSE k
      lamNum == StageLambda(stage)                                    \* current lambda = lamNum / NS
      tiAcc == Kind = "kstage" /\ (Equil = 0 \/ (t % N) >= Equil)
      d == x - cenNew
      \* restraint_FE += Exp * lambda^(Exp-1) * (K1-K0) * dU/dk ; scaled by 2*NS
      feAdd == IF Exp = 1 THEN (K1 - K0) * d * d * NS ELSE 2 * lamNum * (K1 - K0) * d * d
      fe1 == IF tiAcc THEN fe + feAdd ELSE fe
      endStage == Kind = "kstage" /\ (t % N = 0) /\ t > 0
      out1 == IF endStage THEN Append(tiout, [lam |-> lamNum, sum |-> fe1, at |-> t]) ELSE tiout
      adv == endStage /\ stage < NS
      stageK == IF adv THEN stage + 1 ELSE stage
      fe2 == IF adv THEN 0 ELSE fe1
      kStaged == IF adv THEN KOfLambda(StageLambda(stage + 1), NS) ELSE kInit
      kmoveDo == Kind = "kmove" /\ t <= N
      kNew == IF kmoveDo THEN KOfLambda(IF Dec THEN N - t ELSE t, N) ELSE IF Kind = "kstage" THEN kStaged ELSE k
      kincr1 == IF kmoveDo THEN kNew - k ELSE kincr
      \* ---- energy and force with the updated parameters
      e == E2(kNew, d)
      f == -(kNew * d)                                                \* scaled by KS
      \* ---- accumulated work (scaled by 2*KS): force . centre increment, resp. dU/dk * k increment
      wC == IF Kind = "cmove" /\ p.work /\ newRel > 0 /\ t <= N THEN 2 * f * cincr1 ELSE 0
      wK == IF Kind = "kmove" /\ p.work /\ newRel > 0 THEN d * d * kincr1 ELSE 0
  IN /\ cen' = cenNew /\ cincr' = cincr1 /\ k' = kNew /\ kincr' = kincr1
     /\ stage' = (IF Kind = "cstage" THEN stageC ELSE stageK)
     /\ fe' = fe2 /\ tiout' = out1 /\ work' = work + wC + wK
     /\ energy' = e /\ force' = f
     /\ lastX' = x
     /\ phys' = [phys EXCEPT ![t] = x]

InitWith(pp) ==
  /\ p = pp /\ it = 0 /\ rel = 0 /\ cont = FALSE /\ started = FALSE /\ lastX = 0 /\ runs = 1
  /\ cen = pp.c0 /\ k = pp.k0 * (pp.n * pp.n * pp.ns) /\ stage = 0 /\ cincr = 0 /\ kincr = 0 /\ work = 0 /\ fe = 0
  /\ energy = 0 /\ force = 0 /\ tiout = <<>>
  /\ phys = [s \in 0..MaxSteps |-> 0] /\ quirk = {}
Init == \E pp \in ParamSet : InitWith(pp)

\* known deviations of the code at a repeated step (new run in the same process or restart)
RepeatQuirks(t, isRestart) ==
  (IF Kind = "cstage" /\ ~isRestart /\ rel > 0 /\ stage <= NS /\ (t % N = 1) THEN {"cstage-repeated-step-advances"} ELSE {})
  \cup (IF Kind = "kstage" /\ t > 0 /\ t % N = 0 THEN {"kstage-repeated-step-advances"} ELSE {})
  \cup (IF Kind = "kstage" /\ (Equil = 0 \/ (t % N) >= Equil) THEN {"kstage-ti-repeated-step-counted-twice"} ELSE {})
  \cup (IF Kind = "kstage" /\ isRestart /\ fe # 0 THEN {"kstage-ti-accumulator-not-saved"} ELSE {})

First(x) == /\ ~started /\ started' = TRUE /\ it' = it /\ rel' = 0 /\ cont' = FALSE /\ UNCHANGED <<runs, p>>
            \* the code also accumulates the TI sample of step 0 into the first stage (N+1 samples divided by N)
            /\ quirk' = quirk \cup (IF Kind = "kstage" /\ Equil = 0 THEN {"kstage-ti-step0-counted"} ELSE {})
            /\ Update(x, it, 0, FALSE)
Step(x) == /\ started /\ it < MaxSteps /\ it' = it + 1 /\ rel' = rel + 1 /\ cont' = FALSE /\ UNCHANGED <<runs, started, p>>
           \* the code keeps adding dU/dk times the LAST force-constant increment after the schedule has ended
           /\ quirk' = quirk \cup (IF Kind = "kmove" /\ p.work /\ it + 1 > N /\ kincr # 0
                                   THEN {"kmove-work-after-schedule-end"} ELSE {})
           /\ Update(x, it + 1, rel + 1, FALSE)
NewRun == /\ started /\ runs < MaxRuns /\ runs' = runs + 1 /\ cont' = TRUE /\ UNCHANGED <<it, rel, started, p>>
          /\ quirk' = quirk \cup RepeatQuirks(it, FALSE)
          /\ Update(lastX, it, rel, TRUE)
\* stop, save, fresh instance, load, repeat the step: centres, force constant, stage, work persist;
\* centre/force-constant increments and the TI accumulator do not
Restart ==
  /\ started /\ runs < MaxRuns /\ runs' = runs + 1 /\ cont' = FALSE /\ rel' = 0 /\ UNCHANGED <<it, started, p>>
  /\ quirk' = quirk \cup RepeatQuirks(it, TRUE)
  /\ LET x == lastX  t == it
         \* fresh instance after loading
         cen0 == cen  k0 == k  stage0 == stage  work0 == work  fe0 == 0  kincr0 == 0
         cmoveDo == Kind = "cmove" /\ t <= N
         cenNew == IF cmoveDo THEN C0 + EDiv((C1 - C0) * t, N) ELSE cen0      \* staged: rel = 0, no update
         kInit == IF Kind = "kstage" /\ t = 0 THEN KOfLambda(StageLambda(0), NS) ELSE k0
         lamNum == StageLambda(stage0)
         tiAcc == Kind = "kstage" /\ (Equil = 0 \/ (t % N) >= Equil)
         d == x - cenNew
         feAdd == IF Exp = 1 THEN (K1 - K0) * d * d * NS ELSE 2 * lamNum * (K1 - K0) * d * d
         fe1 == IF tiAcc THEN fe0 + feAdd ELSE fe0
         endStage == Kind = "kstage" /\ (t % N = 0) /\ t > 0
         out1 == IF endStage THEN Append(tiout, [lam |-> lamNum, sum |-> fe1, at |-> t]) ELSE tiout
         adv == endStage /\ stage0 < NS
         kStaged == IF adv THEN KOfLambda(StageLambda(stage0 + 1), NS) ELSE kInit
         kmoveDo == Kind = "kmove" /\ t <= N
         kNew == IF kmoveDo THEN KOfLambda(IF Dec THEN N - t ELSE t, N) ELSE IF Kind = "kstage" THEN kStaged ELSE k0
     IN /\ cen' = cenNew /\ cincr' = 0 /\ k' = kNew /\ kincr' = IF kmoveDo THEN kNew - k0 ELSE 0
        /\ stage' = (IF adv THEN stage0 + 1 ELSE stage0)
        /\ fe' = (IF adv THEN 0 ELSE fe1) /\ tiout' = out1 /\ work' = work0
        /\ energy' = E2(kNew, d) /\ force' = -(kNew * d)
        /\ UNCHANGED <<lastX, phys>>

Next == \/ \E x \in XS : First(x) \/ Step(x)
        \/ NewRun \/ Restart
Spec == Init /\ [][Next]_vars

(***************************************************************************)
(* Properties                                                              *)
(***************************************************************************)
\* at every step the restraint has exactly the centre and force constant its schedule prescribes
ScheduleOK == (started /\ quirk = {}) => (cen = CenAt(it) /\ k = KAt(it))
EnergyOK == (started /\ quirk = {}) => (energy = E2(KAt(it), lastX - CenAt(it)) /\ force = -(KAt(it) * (lastX - CenAt(it))))
\* the closed form holds for the parameters in force, whatever they are
ClosedForm == started => (energy = E2(k, lastX - cen) /\ force = -(k * (lastX - cen)))

\* accumulated work = sum over physical steps, each once, of force times centre increment (dU/dk times k increment)
RECURSIVE WorkC(_)
WorkC(s) == IF s < 1 THEN 0
            ELSE (IF s <= N THEN 2 * (-(KAt(s) * (phys[s] - CenAt(s)))) * (CenAt(s) - CenAt(s - 1)) ELSE 0) + WorkC(s - 1)
RECURSIVE WorkK(_)
WorkK(s) == IF s < 1 THEN 0
            ELSE (phys[s] - CenAt(s)) * (phys[s] - CenAt(s)) * (KAt(s) - KAt(s - 1)) + WorkK(s - 1)
WorkOK == (started /\ p.work /\ quirk = {}) =>
             work = (IF Kind = "cmove" THEN WorkC(it) ELSE IF Kind = "kmove" THEN WorkK(it) ELSE 0)

\* staged TI: the value reported at the end of stage j is the sum of dU/dlambda over that stage's
\* post-equilibration steps (the harness divides by N - Equil)
StageStepsTI(j) == {s \in ((j * N) + 1)..((j + 1) * N) : Equil = 0 \/ (s % N) >= Equil}
RECURSIVE SumTI(_, _)
SumTI(S, lamNum) == IF S = {} THEN 0
                    ELSE LET s == CHOOSE s \in S : TRUE
                             d == phys[s] - CenAt(s)
                         IN (IF Exp = 1 THEN (K1 - K0) * d * d * NS ELSE 2 * lamNum * (K1 - K0) * d * d) + SumTI(S \ {s}, lamNum)
ExpWork == IF Kind = "cmove" THEN WorkC(it) ELSE IF Kind = "kmove" THEN WorkK(it) ELSE 0
ExpTI == IF Kind = "kstage" THEN [i \in 1..Min(it \div N, NS + 1) |-> [lam |-> StageLambda(i - 1), sum |-> SumTI(StageStepsTI(i - 1), StageLambda(i - 1))]] ELSE <<>>
TIOK == (quirk = {}) =>
          \A i \in {ii \in 1..Len(tiout) : tiout[ii].at <= (NS + 1) * N} :      \* reports after the last stage are outside the schedule
                                   LET j == (tiout[i].at \div N) - 1 IN
                                     tiout[i].lam = StageLambda(j) /\ tiout[i].sum = SumTI(StageStepsTI(j), StageLambda(j))
=============================================================================
