SPECIFICATION MCSpec
CONSTANTS
  U = 2
  R = 4
  MaxRestarts = 1
  MaxSteps = 7
INVARIANTS CompleteFull
VIEW NoHist
CHECK_DEADLOCK FALSE
