SPECIFICATION MCSpec
CONSTANTS
  XS <- XS_Q
  FB <- FB_Q
  RS <- RS_Q
  ParamSet <- PS_Q
  MaxSteps = 5
  MaxRuns = 3
  EmitLen = 6

INVARIANTS Emit FollowsIntegrator AtomsFeelSpring Bounded
CHECK_DEADLOCK FALSE
