SPECIFICATION MCSpec
CONSTANTS
  ParamSet <- PS_T
  Values <- VS_Q
  MaxArrivals = 0
  MaxCount = 4
  EmitLen = 0
INVARIANTS Emit LapSymmetric LapKillsConstants
CHECK_DEADLOCK FALSE
