SPECIFICATION MCSpec
CONSTANTS
  MaxLen = 5
  MaxEdits = 2
  Alphabet <- A_T
  EditAlphabet <- EA_T
  EditBases <- EB_T
INVARIANTS TypeOK LayoutFree MutRejected UnbalancedRejected AcceptBalanced Emit
\* vacuity: on
CHECK_DEADLOCK FALSE
