---------------------------- MODULE ReplicaFile ----------------------------
(***************************************************************************)
(* Replacement protocol of the state file a metadynamics walker publishes  *)
(* for its peers (C11; colvarbias_meta::write_replica_state_file): remove  *)
(* the temporary file, open it, write the complete state, close it, rename *)
(* it over the published name.  The peers only ever open the published     *)
(* name, so from the first publication on that name must hold a complete   *)
(* state at every instant, whatever the point at which the process dies    *)
(* and however often it dies and is started again.                         *)
(* dir maps "state" / "tmp" to "absent" | "empty" | "partial" | "complete".*)
(***************************************************************************)
EXTENDS Integers, TLC
CONSTANTS MaxWrites, MaxCrashes
VARIABLES dir, pc, writes, crashes, published
rfvars == <<dir, pc, writes, crashes, published>>
RNames == {"state", "tmp"}
RFInit == dir = [n \in RNames |-> "absent"] /\ pc = "idle" /\ writes = 0 /\ crashes = 0 /\ published = FALSE
RmTmp == /\ pc = "idle" /\ writes < MaxWrites /\ dir' = [dir EXCEPT !["tmp"] = "absent"] /\ pc' = "removed"
         /\ UNCHANGED <<writes, crashes, published>>
OpenTmp == /\ pc = "removed" /\ dir' = [dir EXCEPT !["tmp"] = "empty"] /\ pc' = "opened" /\ UNCHANGED <<writes, crashes, published>>
WriteTmp == /\ pc \in {"opened", "writing"} /\ dir' = [dir EXCEPT !["tmp"] = "partial"] /\ pc' = "writing"
            /\ UNCHANGED <<writes, crashes, published>>
CloseTmp == /\ pc = "writing" /\ dir' = [dir EXCEPT !["tmp"] = "complete"] /\ pc' = "closed" /\ UNCHANGED <<writes, crashes, published>>
\* rename(tmp, state): one atomic replacement
Publish == /\ pc = "closed" /\ dir' = [dir EXCEPT !["state"] = dir["tmp"], !["tmp"] = "absent"] /\ pc' = "idle"
           /\ writes' = writes + 1 /\ published' = TRUE /\ UNCHANGED crashes
RCrash == /\ crashes < MaxCrashes /\ pc # "idle" /\ pc' = "idle" /\ crashes' = crashes + 1 /\ UNCHANGED <<dir, writes, published>>
\* NOT part of the protocol: a removal of the published name.  It is in the vocabulary of the trace specification so that a
\* recorded removal is evaluated against the invariant instead of being ignored.
Unlink(n) == dir' = [dir EXCEPT ![n] = "absent"] /\ UNCHANGED <<pc, writes, crashes, published>>
RFNext == RmTmp \/ OpenTmp \/ WriteTmp \/ CloseTmp \/ Publish \/ RCrash
RFSpec == RFInit /\ [][RFNext]_rfvars
AlwaysPublished == published => dir["state"] = "complete"
RWitness1 == crashes = 2 /\ writes = 2
NoRWitness1 == ~RWitness1
=============================================================================
