SPECIFICATION MCSpec
CONSTANTS
  NB = 3
  FS <- FS_A
  ParamSet <- PS_Quick
  MaxSteps = 5
  MaxRuns = 2
  D = 2520
  EmitLen = 5
VIEW View
INVARIANTS TypeOK CountOK CountExact SumExact AppliedOK OutsideZero NoBiasZero CapOK DeliveredOK
CHECK_DEADLOCK FALSE
