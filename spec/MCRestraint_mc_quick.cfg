SPECIFICATION MCSpec
CONSTANTS
  XS <- XS_Q
  ParamSet <- PS_Quick
  MaxSteps = 7
  MaxRuns = 2
  EmitLen = 8
VIEW View
INVARIANTS ScheduleOK EnergyOK ClosedForm WorkOK TIOK
\* vacuity: on
CHECK_DEADLOCK FALSE
