---------------------------- MODULE MCTotalForce ----------------------------
EXTENDS TotalForce
FA_Q == {-2, 0, 1, 3}
LAM_Q == {0, 1, -2}
JS_Q == {0, 2}
PS_Q == {[sameStep |-> s, subtract |-> b] : s \in BOOLEAN, b \in BOOLEAN}
=============================================================================
