------------------------------- MODULE Forces -------------------------------
(***************************************************************************)
(* C01.  The force handed to the engine for each atom is minus the         *)
(* derivative of the energy reported for the same step.                    *)
(*                                                                         *)
(* Part A (this module's state machine): an exact model of the chain from  *)
(* biases to atoms on an integer lattice.                                  *)
(*   atoms 1..3 with integer coordinates and masses m (group masses 1,2,4) *)
(*   component i = (centre of mass of main_i - centre of mass of ref_i)    *)
(*                 projected on a coordinate axis  (distanceZ)             *)
(*   variable  x = c1*v1 + c2*v2^2   (componentCoeff, componentExp)        *)
(*   biases    harmonic 1/2 k (x - x0)^2 and linear k x, summed            *)
(* Energy and forces are integers after scaling (centres x4, x x16,        *)
(* E x512, F x256).  The mechanism is the chain rule as the code applies   *)
(* it (bias force on the variable -> component -> group -> atoms by mass   *)
(* fraction, an atom in two groups receiving both parts); the property is  *)
(* F = -dE/dr evaluated independently by the five-point stencil, which is  *)
(* exact for the quartic polynomial E.                                     *)
(*                                                                         *)
(* Part B (ForceLawTrace): recorded executions of the real code for every  *)
(* component type, group option and differentiable bias are validated      *)
(* against the same law with central differences of the reported energy.   *)
(***************************************************************************)
EXTENDS Integers, Sequences, FiniteSets, TLC

CONSTANTS ParamSet, ZS, XS
VARIABLES p, pos      \* pos[a] = <<x, y, z>> integer coordinates
fvars == <<p, pos>>

Atoms == 1..3
\* group mass and 4 * (mass-weighted centre) along axis ax for a group given as a set of atoms
GMass(g) == LET RECURSIVE S(_) S(T) == IF T = {} THEN 0 ELSE LET a == CHOOSE x \in T : TRUE IN p.m[a] + S(T \ {a}) IN S(g)
Centre4(g, ax, q) == LET RECURSIVE S(_) S(T) == IF T = {} THEN 0 ELSE LET a == CHOOSE x \in T : TRUE IN p.m[a] * q[a][ax] + S(T \ {a})
                     IN (4 * S(g)) \div GMass(g)
\* component value x4
V4(c, q) == Centre4(c.main, c.ax, q) - Centre4(c.ref, c.ax, q)
\* 4 * d v / d r_a[ax]
D4(c, a, ax) == IF ax # c.ax THEN 0
                ELSE (IF a \in c.main THEN (4 * p.m[a]) \div GMass(c.main) ELSE 0) - (IF a \in c.ref THEN (4 * p.m[a]) \div GMass(c.ref) ELSE 0)
\* variable x16 = 16 (c1 v1 + c2 v2^2)
X16(q) == 4 * p.c1 * V4(p.comp1, q) + p.c2 * V4(p.comp2, q) * V4(p.comp2, q)
\* 16 * d x / d r_a[ax]
DX16(a, ax, q) == 4 * p.c1 * D4(p.comp1, a, ax) + 2 * p.c2 * V4(p.comp2, q) * D4(p.comp2, a, ax)
\* energy x512: harmonic 1/2 k (x - x0)^2 -> k (x16 - 16 x0)^2 ; linear kl * x -> 32 kl x16
E512(q) == p.k * (X16(q) - 16 * p.x0) * (X16(q) - 16 * p.x0) + 32 * p.kl * X16(q)
\* force on the variable x16: -dE/dx = -(k (x - x0) + kl) -> -(k (x16 - 16 x0) + 16 kl)
FX16(q) == -(p.k * (X16(q) - 16 * p.x0) + 16 * p.kl)
\* mechanism: force on atom a along ax, x256
F256(a, ax, q) == FX16(q) * DX16(a, ax, q)

\* the geometry is chosen in a second step so that the cases are spread over TLC's workers
Unset == [a \in Atoms |-> <<0, 1, 0>>]
FInit == p \in ParamSet /\ pos = Unset
FNext == pos = Unset /\ pos' \in [Atoms -> {<<x, 0, z>> : x \in XS, z \in ZS}] /\ UNCHANGED p
FSpec == FInit /\ [][FNext]_fvars

Moved(q, a, ax, d) == [q EXCEPT ![a] = [@ EXCEPT ![ax] = @ + d]]
\* five-point stencil of E: exact derivative of a quartic polynomial (x 12, unit step)
Stencil(a, ax) == -E512(Moved(pos, a, ax, 2)) + 8 * E512(Moved(pos, a, ax, 1)) - 8 * E512(Moved(pos, a, ax, -1)) + E512(Moved(pos, a, ax, -2))
GroupsExact == \A g \in {p.comp1.main, p.comp1.ref, p.comp2.main, p.comp2.ref} : \A a \in g : (4 * p.m[a]) % GMass(g) = 0
ForceIsMinusGradient == pos # Unset => \A a \in Atoms, ax \in 1..3 : Stencil(a, ax) = -24 * F256(a, ax, pos)
\* the forces of a translation-invariant energy sum to zero
NoNetForce == pos # Unset => \A ax \in 1..3 : F256(1, ax, pos) + F256(2, ax, pos) + F256(3, ax, pos) = 0
=============================================================================
