--------------------------- MODULE IntegrateTrace ---------------------------
(* Recorded arrival histories executed by the real integrator (divergence read after every arrival) validated against  *)
(* Integrate.tla: each event must be the Arrive step of the specification with exactly the logged divergence field.     *)
EXTENDS Integrate, Json, IOUtils
Trace == ndJsonDeserialize(IOEnv.TRACE)
VARIABLE l
tvars == <<p, grad, div, hist, l>>
Ev == Trace[l]
TInit == /\ l = 2 /\ Trace[1].e = "Reset"
         /\ p = Trace[1].p
         /\ grad = [b \in Tuples(p.n, Len(p.n)) |-> [sum |-> [i \in 1..Len(p.n) |-> 0], cnt |-> 0]]
         /\ div = [pt \in Tuples(PtSizes(p), Len(p.n)) |-> 0]
         /\ hist = <<>>
TReset == /\ l <= Len(Trace) /\ Ev.e = "Reset" /\ l' = l + 1
          /\ p' = Ev.p
          /\ grad' = [b \in Tuples(Ev.p.n, Len(Ev.p.n)) |-> [sum |-> [i \in 1..Len(Ev.p.n) |-> 0], cnt |-> 0]]
          /\ div' = [pt \in Tuples(PtSizes(Ev.p), Len(Ev.p.n)) |-> 0]
          /\ hist' = <<>>
Logged(pt) == LET s == SelectSeq(Ev.div, LAMBDA x : x.pt = pt) IN IF s = <<>> THEN 0 ELSE s[1].v
TArrive == /\ l <= Len(Trace) /\ Ev.e = "Arrive" /\ l' = l + 1
           /\ Arrive(Ev.b, Ev.v)
           /\ \A pt \in Points : div'[pt] = Logged(pt)
TNext == TReset \/ TArrive
TSpec == TInit /\ [][TNext]_tvars
Progress == PrintT(<<"MAXL", l>>)
=============================================================================
