SPECIFICATION Spec1
CONSTANTS
  MaxN = 4
INVARIANTS Differences Closes Ends Emit
CHECK_DEADLOCK FALSE
