------------------------------ MODULE MCEngine ------------------------------
EXTENDS Engine
D(kd, k, c, t) == [kind |-> kd, k |-> k, c |-> c, tsf |-> t]
Menu_Q == { D("harmonic", 1, 1, 1), D("harmonic", 2, -1, 2), D("harmonic", 1, 0, 3), D("linear", 1, 0, 1), D("linear", 2, 0, 2), D("histogram", 0, 0, 1) }
ZS_Q == {-1, 2}
Starts_Q == {0, 1, 3}
\* vacuity witnesses: the check searches a state satisfying each Witness<i> (a violation of NoWitness<i>)
Witness1 == outs # <<>> /\ pair[1].tsf > 1 /\ Last.t % pair[1].tsf # 0 /\ Last.B.f # 0
NoWitness1 == ~Witness1
Witness2 == outs # <<>> /\ pair[1].tsf = 3 /\ Last.t % 3 = 0 /\ Last.A.f # 0
NoWitness2 == ~Witness2
MCInit == Init
MCSpec == MCInit /\ [][Next]_evars
Emit == (Len(outs) = MaxLen) => PrintT(<<"BEH", ToJson([pair |-> pair, first |-> firstStep, outs |-> outs])>>)
=============================================================================
