SPECIFICATION TSpec
CONSTANTS
  XS = {}
  ParamSet = {}
  MaxSteps = 40
  MaxRuns = 12
INVARIANTS Progress ScheduleOK EnergyOK ClosedForm WorkOK TIOK
CHECK_DEADLOCK FALSE
