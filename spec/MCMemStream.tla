---------------------------- MODULE MCMemStream ----------------------------
EXTENDS MemStream, Json
CONSTANTS MaxItems, MaxN
VARIABLES items, mut    \* mut = [t |-> "none" | "cut" | "patch", k, j, c]
ItemSet == {[k |-> kk, n |-> 1] : kk \in {x \in Kinds : ~IsSeq(x)}} \cup {[k |-> kk, n |-> nn] : kk \in {x \in Kinds : IsSeq(x)}, nn \in 0..MaxN}
SeqsUpTo(m) == UNION {[1..len -> ItemSet] : len \in 1..m}
Muts(its) == {[t |-> "none", k |-> 0, j |-> 0, c |-> 0]}
             \cup {[t |-> "cut", k |-> kk, j |-> 0, c |-> 0] : kk \in 0..(Total(its) - 1)}
             \cup UNION {{[t |-> "patch", k |-> 0, j |-> jj, c |-> cc] : cc \in {0, its[jj].n - 1, its[jj].n + 1, -1}} :
                           jj \in {x \in 1..Len(its) : IsSeq(its[x].k)}}
Init == /\ items \in SeqsUpTo(MaxItems)
        /\ mut \in (IF Len(items) <= 2 THEN Muts(items) ELSE {[t |-> "none", k |-> 0, j |-> 0, c |-> 0]})
Next == UNCHANGED <<items, mut>>
Spec == Init /\ [][Next]_<<items, mut>>
BufLen == IF mut.t = "cut" THEN mut.k ELSE Total(items)
Exp == ReadAll(items, 1, 0, BufLen, mut.j, mut.c)
PropRoundTrip == (mut.t = "none") => RoundTrip(items)
PropNeverPast == NeverPastEnd(items, BufLen, mut.j, mut.c)
PropCut == (mut.t = "cut") => CutFails(items, mut.k)
Emit == PrintT(<<"BEH", ToJson([items |-> items, mut |-> mut, wlen |-> Offsets(items, 1, 0), reads |-> Exp, buflen |-> BufLen])>>)
=============================================================================
