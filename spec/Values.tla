------------------------------- MODULE Values -------------------------------
(***************************************************************************)
(* C02.  Values of variables on integer lattices, and their symmetries.    *)
(*                                                                         *)
(* Five atoms with integer coordinates and masses; groups A = {1,2},       *)
(* B = {3,4}, all = {1..4}.  Definitions (documented formulas, evaluated   *)
(* exactly; irrational final steps - square root, arc cosine, arc tangent  *)
(* - are left to the harness, which receives the exact integer arguments): *)
(*   dist2     |com(A) - com(B)|^2                  x (MA MB)^2            *)
(*   dz        (com(A) - com(B)) . e_z              x  MA MB               *)
(*   dxy2      squared length of the part of com(A)-com(B) normal to e_z   *)
(*   gyr       sum_i |r_i - cog|^2 over {1..4}      x 4   (= 4 N Rg^2 / N) *)
(*   cosang    the angle at atom 2 between atoms 1 and 3: u.v, |u|^2,|v|^2 *)
(*   dihedral  atoms 1-2-3-4: x = (b1 x b2).(b2 x b3), y0 = b1.(b2 x b3),  *)
(*             |b2|^2  (angle = atan2(|b2| y0, x))                         *)
(*   coord     sum over pairs (a in A, b in B) of r0^2/(r0^2 + d_ab^2)     *)
(*             (coordNum with expNumer 2, expDenom 4): list of d_ab^2      *)
(*   mindist2  dist2 under an orthorhombic cell: each component of the     *)
(*             displacement wrapped to [-L/2, L/2)                         *)
(* Transformations under which the values above are invariant:             *)
(*   proper rotations of the cube (24 signed permutation matrices) and     *)
(*   integer translations of all atoms (not dz/dxy2 under rotation);       *)
(*   translation of group B by whole cell vectors (mindist2);              *)
(*   the order in which a group's atoms are listed, and listing an atom    *)
(*   twice (choices passed to the harness's renderer).                     *)
(* A rigidly moved copy of the reference positions has rmsd 0 and its      *)
(* optimal rotation is the applied one (up to the sign of the quaternion). *)
(***************************************************************************)
EXTENDS Integers, Sequences, FiniteSets, TLC

CONSTANTS Geoms, Masses, Cell
VARIABLES geo, m, rot, tr, shiftB, listing, base
vvars == <<geo, m, rot, tr, shiftB, listing, base>>

Dot3(a, b) == a[1] * b[1] + a[2] * b[2] + a[3] * b[3]
Sub3(a, b) == <<a[1] - b[1], a[2] - b[2], a[3] - b[3]>>
Add3(a, b) == <<a[1] + b[1], a[2] + b[2], a[3] + b[3]>>
Scale3(k, a) == <<k * a[1], k * a[2], k * a[3]>>
Cross3(a, b) == <<a[2] * b[3] - a[3] * b[2], a[3] * b[1] - a[1] * b[3], a[1] * b[2] - a[2] * b[1]>>

\* the 24 proper rotations of the cube: [p |-> permutation of 1..3, s |-> signs], (R v)[i] = s[i] * v[p[i]]
Perms3 == {<<1, 2, 3>>, <<2, 3, 1>>, <<3, 1, 2>>, <<1, 3, 2>>, <<3, 2, 1>>, <<2, 1, 3>>}
Parity(p) == IF p \in {<<1, 2, 3>>, <<2, 3, 1>>, <<3, 1, 2>>} THEN 1 ELSE -1
Rots == {[p |-> p, s |-> s] : p \in Perms3, s \in {<<a, b, c>> : a \in {-1, 1}, b \in {-1, 1}, c \in {-1, 1}}}
ProperRots == {r \in Rots : Parity(r.p) * r.s[1] * r.s[2] * r.s[3] = 1}
Apply(r, v) == <<r.s[1] * v[r.p[1]], r.s[2] * v[r.p[2]], r.s[3] * v[r.p[3]]>>
Identity == [p |-> <<1, 2, 3>>, s |-> <<1, 1, 1>>]

\* positions after the transformation: rotate, translate, then move group B by whole cell vectors
Pos(a) == LET q == Add3(Apply(rot, geo[a]), tr)
          IN IF a \in {3, 4} THEN Add3(q, <<shiftB[1] * Cell[1], shiftB[2] * Cell[2], shiftB[3] * Cell[3]>>) ELSE q
MA == m[1] + m[2]
MB == m[3] + m[4]
\* mass-weighted sums (centre x group mass)
SA == Add3(Scale3(m[1], Pos(1)), Scale3(m[2], Pos(2)))
SB == Add3(Scale3(m[3], Pos(3)), Scale3(m[4], Pos(4)))
\* (com(A) - com(B)) x MA MB
DAB == Sub3(Scale3(MB, SA), Scale3(MA, SB))
Dist2 == Dot3(DAB, DAB)
Dz == DAB[3]
Dxy2 == DAB[1] * DAB[1] + DAB[2] * DAB[2]
\* 4 sum |r_i - cog|^2 x 4 = 4 (4 sum |r|^2 - |sum r|^2)
SumR == Add3(Add3(Pos(1), Pos(2)), Add3(Pos(3), Pos(4)))
Gyr16 == 4 * (4 * (Dot3(Pos(1), Pos(1)) + Dot3(Pos(2), Pos(2)) + Dot3(Pos(3), Pos(3)) + Dot3(Pos(4), Pos(4))) - Dot3(SumR, SumR))
U == Sub3(Pos(1), Pos(2))
V == Sub3(Pos(3), Pos(2))
AngleArgs == [uv |-> Dot3(U, V), uu |-> Dot3(U, U), vv |-> Dot3(V, V)]
B1 == Sub3(Pos(2), Pos(1))
B2 == Sub3(Pos(3), Pos(2))
B3 == Sub3(Pos(4), Pos(3))
DihedralArgs == [x |-> Dot3(Cross3(B1, B2), Cross3(B2, B3)), y0 |-> Dot3(B1, Cross3(B2, B3)), b2 |-> Dot3(B2, B2)]
PairD2 == <<Dot3(Sub3(Pos(1), Pos(3)), Sub3(Pos(1), Pos(3))), Dot3(Sub3(Pos(1), Pos(4)), Sub3(Pos(1), Pos(4))),
            Dot3(Sub3(Pos(2), Pos(3)), Sub3(Pos(2), Pos(3))), Dot3(Sub3(Pos(2), Pos(4)), Sub3(Pos(2), Pos(4)))>>
\* minimum image of a displacement x (scaled by k: the cell edge is k L): wrap to [-kL/2, kL/2)
WrapC(x, kL) == x - ((2 * x + kL) \div (2 * kL)) * kL
MinDAB == <<WrapC(DAB[1], MA * MB * Cell[1]), WrapC(DAB[2], MA * MB * Cell[2]), WrapC(DAB[3], MA * MB * Cell[3])>>
MinDist2 == Dot3(MinDAB, MinDAB)

Vals == [d2 |-> Dist2, dz |-> Dz, dxy2 |-> Dxy2, gyr |-> Gyr16, ang |-> AngleArgs, dih |-> DihedralArgs, pair |-> PairD2, min |-> MinDist2]
VInit == /\ geo \in Geoms /\ m \in Masses
         /\ rot = Identity /\ tr = <<0, 0, 0>> /\ shiftB = <<0, 0, 0>> /\ listing = "plain"
         /\ base = [d2 |-> 0, dz |-> 0, dxy2 |-> 0, gyr |-> 0, ang |-> 0, dih |-> 0, pair |-> 0, min |-> 0, set |-> FALSE]
\* first the values of the base geometry are recorded, then one transformation is applied to it
Record == ~base.set /\ base' = [Vals EXCEPT !.d2 = Dist2] @@ [set |-> TRUE] /\ UNCHANGED <<geo, m, rot, tr, shiftB, listing>>
Transform ==
  /\ base.set /\ rot = Identity /\ tr = <<0, 0, 0>> /\ shiftB = <<0, 0, 0>> /\ listing = "plain"
  /\ UNCHANGED <<geo, m, base>>
  /\ \/ rot' \in ProperRots \ {Identity} /\ tr' \in {<<0, 0, 0>>, <<2, -1, 3>>} /\ UNCHANGED <<shiftB, listing>>
     \/ tr' = <<-3, 1, 2>> /\ UNCHANGED <<rot, shiftB, listing>>
     \/ shiftB' \in {<<1, 0, 0>>, <<0, -1, 1>>, <<-2, 1, 0>>} /\ UNCHANGED <<rot, tr, listing>>
     \/ listing' \in {"reversed", "duplicate"} /\ UNCHANGED <<rot, tr, shiftB>>
VNext == Record \/ Transform
VSpec == VInit /\ [][VNext]_vvars

---------------------------------------------------------------------------
\* internal variables do not change under rigid motions and under the way a group is listed
InternalInvariant == (base.set /\ shiftB = <<0, 0, 0>>) =>
  /\ Dist2 = base.d2 /\ Gyr16 = base.gyr /\ AngleArgs = base.ang /\ DihedralArgs = base.dih /\ PairD2 = base.pair
\* projections on a fixed axis only survive translations and relisting
AxisInvariant == (base.set /\ shiftB = <<0, 0, 0>> /\ rot = Identity) => Dz = base.dz /\ Dxy2 = base.dxy2
\* under minimum-image boundaries a group may be moved by whole cell vectors
MinImageInvariant == (base.set /\ rot = Identity) => MinDist2 = base.min
MinImageShortest == \A i \in 1..3 : 2 * MinDAB[i] >= -(MA * MB * Cell[i]) /\ 2 * MinDAB[i] < MA * MB * Cell[i]
=============================================================================
