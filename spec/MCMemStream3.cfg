SPECIFICATION Spec
CONSTANTS
  MaxItems = 3
  MaxN = 2
INVARIANTS PropRoundTrip PropNeverPast PropCut
CHECK_DEADLOCK FALSE
