SPECIFICATION MCSpec
CONSTANTS
  W = 2
  NBins = 2
  Values <- VS_Q
  Freq = 2
  MaxSteps = 9
  MaxRestarts = 2
  EmitLen = 8
INVARIANTS Emit
CHECK_DEADLOCK FALSE
