SPECIFICATION MCSpec
CONSTANTS
  U = 2
  R = 4
  MaxRestarts = 1
  MaxSteps = 10
INVARIANTS ExactlyOnce Complete QuirkScope
VIEW NoHist
\* vacuity: on
CHECK_DEADLOCK FALSE
