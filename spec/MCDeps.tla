------------------------------ MODULE MCDeps ------------------------------
(* Exhaustive exploration of bias life cycles on the REAL dependency tables. *)
(* The initial world (one configured variable with its component and groups) *)
(* and the primitive-operation lists of "create a bias", "delete a bias" are  *)
(* RECORDED from the running implementation at check time (hook 1); TLC       *)
(* explores every order of create / step (multiple-time-step sleep and wake)  *)
(* / delete / user toggles for two biases and checks the dependency           *)
(* invariants and the define-then-delete identity after every macro step.     *)
EXTENDS RealTables

CONSTANTS MaxIt, MaxOps,
          AllowAsleepDelete   \* FALSE in the strict run; TRUE reproduces the known deviation delete-asleep-bias

VARIABLES fs, children, live, it, tsf, nops, everAsleep, lastAct
mvars == <<fs, children, live, it, tsf, nops, everAsleep, lastAct>>

Wd == W(fs, children)

\* witnesses against vacuity

\* vacuity witnesses: the check searches a state satisfying each Witness<i> (a violation of NoWitness<i>)
Witness1 == live = BaseIds /\ nops > 1
NoWitness1 == ~Witness1
Witness2 == everAsleep # {}
NoWitness2 == ~Witness2
Witness3 == Cardinality(live \cap BiasIds) = 2
NoWitness3 == ~Witness3
Init == /\ fs = BaseFs /\ children = BaseCh /\ live = BaseIds /\ it = 0 /\ tsf = [b \in BiasIds |-> 1]
        /\ nops = 0 /\ everAsleep = {} /\ lastAct = "init"

Create(b, t) ==
  /\ b \notin live /\ nops < MaxOps
  /\ LET w1 == ApplyOps(W([fs EXCEPT ![b] = FreshBias], children), Macros.create, 1, b) IN
     fs' = w1.fs /\ children' = w1.ch
  /\ live' = live \cup {b} /\ tsf' = [tsf EXCEPT ![b] = t] /\ nops' = nops + 1
  /\ lastAct' = "create" /\ UNCHANGED <<it, everAsleep>>

\* colvarmodule::calc_colvars(): biases with a time-step factor are woken up / put to sleep
RECURSIVE Toggle(_, _, _)
Toggle(w, bs, step) ==
  IF bs = {} THEN w
  ELSE LET b == CHOOSE x \in bs : TRUE
           w1 == IF tsf[b] > 1
                 THEN (IF step % tsf[b] = 0 THEN Enable(w, b, AWAKE, FALSE, TRUE, FALSE).w ELSE Disable(w, b, AWAKE).w)
                 ELSE w
       IN Toggle(w1, bs \ {b}, step)

Step ==
  /\ it < MaxIt /\ nops < MaxOps
  /\ LET w1 == Toggle(Wd, live \cap BiasIds, it) IN
     /\ fs' = w1.fs /\ children' = w1.ch
     /\ everAsleep' = everAsleep \cup {b \in live \cap BiasIds : ~w1.fs[b][0].en}
  /\ it' = it + 1 /\ nops' = nops + 1 /\ lastAct' = "step" /\ UNCHANGED <<live, tsf>>

Delete(b) ==
  /\ b \in live /\ b \in BiasIds /\ nops < MaxOps
  /\ (AllowAsleepDelete \/ fs[b][0].en)
  /\ LET w1 == ApplyOps(Wd, Macros.delete, 1, b) IN
     fs' = [w1.fs EXCEPT ![b] = FreshBias] /\ children' = w1.ch
  /\ live' = live \ {b} /\ nops' = nops + 1 /\ lastAct' = "delete"
  /\ UNCHANGED <<it, tsf, everAsleep>>

Next == \/ \E b \in BiasIds, t \in SeqToSet0(Macros.tsfs) : Create(b, t)
        \/ Step
        \/ \E b \in BiasIds : Delete(b)
Spec == Init /\ [][Next]_mvars

Inv1 == I1_Self(Wd, live)
Inv2 == I2_Children(Wd, live)
Inv3 == I3_Excl(Wd, live)
Inv4 == I4_Alt(Wd, live)
Inv5 == I5_NeededStaysOn(Wd, live)
\* a reference count never exceeds what its live referrers explain, plus one unexplained
\* reference per feature that was switched on at top level (those are not counted by the code)
NoNegative == \A o \in live : \A f \in Feat[K(o)] : fs[o][f].rc >= 0
\* define-then-delete is the identity: with no bias left, every remaining object is exactly as configured.
\* NoLeak: nothing stays enabled or referenced on behalf of deleted objects (strict).
\* NoLoss: nothing that was enabled before is switched off (known deviation: the variable's "active",
\* enabled at top level without a reference, is auto-disabled when its last referrer goes away).
NoLeak == (live = BaseIds) => \A o \in BaseIds : /\ children[o] = BaseCh[o]
                                                  /\ \A f \in Feat[K(o)] : fs[o][f].en => (BaseFs[o][f].en /\ fs[o][f].rc <= BaseFs[o][f].rc)
NoLoss == (live = BaseIds) => \A o \in BaseIds : \A f \in Feat[K(o)] : BaseFs[o][f].en => fs[o][f].en
=============================================================================
