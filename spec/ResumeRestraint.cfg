SPECIFICATION PSpecW
CONSTANTS
  XS <- XS_R
  ParamSet <- PS_R
  MaxSteps = 7
  MaxRuns = 3
VIEW PView
INVARIANTS Indistinguishable
\* vacuity: on
CHECK_DEADLOCK FALSE
