--------------------------- MODULE MCMetaWalkers ---------------------------
EXTENDS MetaWalkers
MCSpec == WInit /\ [][WNext]_wvars
NoHist == <<it, first, own, buf, flushed, sstep, gen, mir, dup, cursor, cgen, insync, fstep, lastgot, missing, quirk>>
Witness1 == \E w \in Walkers : dup[w] = 0 /\ Cardinality(mir[w]) >= 4 /\ gen[Peer(w)] >= 1
NoWitness1 == ~Witness1
Witness2 == quirk = {} /\ \E w \in Walkers : gen[w] >= 1 /\ gen[Peer(w)] >= 1 /\ Cardinality(mir[w]) >= 3
NoWitness2 == ~Witness2
=============================================================================
