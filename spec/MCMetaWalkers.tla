--------------------------- MODULE MCMetaWalkers ---------------------------
EXTENDS MetaWalkers
MCSpec == WInit /\ [][WNext]_wvars
NoHist == <<it, first, own, buf, flushed, sstep, gen, mir, dup, cursor, cgen, insync, fstep, lastgot, missing, oldbuf, midwin, quirk>>
Witness1 == \E w \in Walkers : dup[w] = 0 /\ Cardinality(mir[w]) >= 4 /\ gen[Peer(w)] >= 1
NoWitness1 == ~Witness1
Witness2 == quirk = {} /\ \E w \in Walkers : gen[w] >= 1 /\ gen[Peer(w)] >= 1 /\ Cardinality(mir[w]) >= 3
NoWitness2 == ~Witness2
\* a reader ran inside the peer's snapshot window, re-read the new snapshot and was shown the whole old hills file
Witness3 == \E i \in 1..Len(hist) : hist[i].t >= 0 /\ hist[i].view.stale /\ hist[i].view.n >= 2
NoWitness3 == ~Witness3
=============================================================================
