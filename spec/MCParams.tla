------------------------------ MODULE MCParams ------------------------------
(* Case generation for C10: every (type, keyword, value) alone; in simulation mode random pairs in one definition and   *)
(* random sequences of two definitions.                                                                                  *)
EXTENDS Params
CONSTANTS MaxAttempts, MaxSettings
VARIABLES case
mvars == <<case, objs, usable, hist>>
MCInit == PInit /\ case = <<>>
\* an attempt under construction is the last element of case: a sequence of settings of one type
AddAttempt == /\ Len(case) < MaxAttempts
              /\ \E s \in AllSettings : case' = Append(case, <<s>>)
              /\ UNCHANGED pvars
AddSetting == /\ case # <<>> /\ Len(case[Len(case)]) < MaxSettings
              /\ \E s \in AllSettings : /\ s.t = case[Len(case)][1].t
                                        /\ \A i \in 1..Len(case[Len(case)]) : case[Len(case)][i].k # s.k
                                        /\ case' = [case EXCEPT ![Len(case)] = Append(@, s)]
              /\ UNCHANGED pvars
MCNext == AddAttempt \/ AddSetting
MCSpec == MCInit /\ [][MCNext]_mvars
Emit == case = <<>> \/ PrintT(<<"BEH", ToJson([case |-> case])>>)
Witness1 == Len(case) = MaxAttempts /\ Len(case[1]) = MaxSettings
NoWitness1 == ~Witness1
=============================================================================
