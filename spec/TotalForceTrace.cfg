SPECIFICATION TSpec
CONSTANTS
  FA = {}
  LAM = {}
  JS = {}
  ParamSet = {}
  MaxSteps = 100000
INVARIANTS Progress TLate SameOK TInverse
CHECK_DEADLOCK FALSE
