SPECIFICATION TSpec
CONSTANTS
  NB = 4
  FS = {}
  ParamSet = {}
  MaxSteps = 40
  MaxRuns = 100
  D = 1441440
INVARIANTS Progress TCount TSum AppliedOK OutsideZero NoBiasZero CapOK
CHECK_DEADLOCK FALSE
