------------------------------- MODULE MCGrid -------------------------------
EXTENDS Grid, Json
CONSTANTS EmitLen
Dm(lo, w, n, per) == [lo |-> lo, w |-> w, n |-> n, periodic |-> per]
P1(d, sz) == [dims |-> <<d>>, stepZero |-> sz, vec |-> 0, weights |-> <<>>, custom |-> FALSE, vs |-> {}]
\* The vector-gathering path (vec > 0) is modelled in Grid.tla but cannot be configured in the implementation under
\* test (a vector variable fails the "grid" dependency), so no parameter record exercises it.
PS_Q == { P1(Dm(0, 2, 3, FALSE), FALSE), P1(Dm(0, 2, 3, FALSE), TRUE), P1(Dm(-3, 1, 4, FALSE), FALSE), P1(Dm(-2, 2, 3, TRUE), FALSE),
          [dims |-> <<Dm(0, 2, 2, FALSE), Dm(-2, 1, 3, FALSE)>>, stepZero |-> FALSE, vec |-> 0, weights |-> <<>>, custom |-> FALSE, vs |-> {}],
          [dims |-> <<Dm(0, 1, 4, FALSE), Dm(-2, 2, 2, FALSE)>>, stepZero |-> FALSE, vec |-> 0, weights |-> <<>>, custom |-> TRUE, vs |-> {}],
          \* custom block that differs from the variables' own grid (width 1, [-4, 4]) in the FIRST dimension only
          [dims |-> <<Dm(0, 1, 4, FALSE), Dm(-8, 2, 8, FALSE)>>, stepZero |-> FALSE, vec |-> 0, weights |-> <<>>, custom |-> TRUE, vs |-> {}],
          [dims |-> <<Dm(-2, 1, 5, FALSE)>>, stepZero |-> FALSE, vec |-> 0, weights |-> <<>>, custom |-> TRUE, vs |-> {}] }
VS_Q == {-3, 0, 2, 6}
VS_T == {-3, -1, 0, 2, 3, 6}
\* vacuity witnesses: the check searches a state satisfying each Witness<i> (a violation of NoWitness<i>)
Witness1 == quirk = {} /\ \E b \in Bins : count[b] >= 2
NoWitness1 == ~Witness1
Witness2 == runs > 1
NoWitness2 == ~Witness2
MCInit == Init
MCNext == Len(hist) < EmitLen /\ Next
MCSpec == MCInit /\ [][MCNext]_gvars
Emit == (Len(hist) = EmitLen) => PrintT(<<"BEH", ToJson([p |-> p, hist |-> hist, cont |-> cont, cells |-> {[b |-> b, c |-> count[b]] : b \in Bins}, q |-> quirk])>>)
=============================================================================
