SPECIFICATION MCSpec
CONSTANTS
  W = 3
  NBins = 2
  Values <- VS_Q
  Freq = 2
  MaxSteps = 3
  MaxRestarts = 1
  EmitLen = 99
INVARIANTS ExactlyOnce OwnRecoverable QuirkScope NeverTwice NoNegative
\* vacuity: on
VIEW NoHist
CHECK_DEADLOCK FALSE
