SPECIFICATION MCSpec
CONSTANTS
  W = 3
  NBins = 2
  Values <- VS_1
  Freq = 2
  MaxSteps = 5
  MaxRestarts = 1
  EmitLen = 99
INVARIANTS ExactlyOnce OwnRecoverable QuirkScope NeverTwice NoNegative
\* vacuity: on
VIEW NoHist
CHECK_DEADLOCK FALSE
