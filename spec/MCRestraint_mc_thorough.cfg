SPECIFICATION MCSpec
CONSTANTS
  XS <- XS_Q
  ParamSet <- PS_Quick
  MaxSteps = 9
  MaxRuns = 3
  EmitLen = 10
VIEW View
INVARIANTS ScheduleOK EnergyOK ClosedForm WorkOK TIOK
\* vacuity: on
CHECK_DEADLOCK FALSE
