SPECIFICATION PSpecW
CONSTANTS
  NB = 3
  FS <- FS_R
  ParamSet <- PS_R
  MaxSteps = 4
  MaxRuns = 3
  D = 2520
VIEW PView
INVARIANTS Indistinguishable TotalForceSame
\* vacuity: on
CHECK_DEADLOCK FALSE
