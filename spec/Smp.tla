-------------------------------- MODULE Smp --------------------------------
(***************************************************************************)
(* Shared-memory evaluation of the per-step work items (C12): one item per *)
(* active component, one per active bias, plus the scripted-force task.    *)
(* An item reads shared inputs (positions, parameters), writes only its    *)
(* own outputs (footprint = the component / bias it belongs to), and may   *)
(* report an error: error bits are OR-ed into the shared error state while *)
(* holding the proxy's lock; each thread has its own log indentation depth *)
(* which an item increases while it runs and restores when it ends.        *)
(* The loop returns when every item has finished.                          *)
(***************************************************************************)
EXTENDS Integers, Sequences, FiniteSets, TLC

CONSTANTS Items,       \* set of work items
          Threads,     \* set of thread ids
          ErrItems     \* items that report an error

VARIABLES assign,      \* [Items -> Threads]: chosen by the scheduler
          pc,          \* [Items -> "todo" | "running" | "locked" | "done"]
          out,         \* [Items -> 0 | 1]: the item's own output (1 = computed)
          lock,        \* holder of the lock, or -1
          errBits,     \* shared error state (set of items that reported)
          depth,       \* [Threads -> Nat]
          order        \* history: sequence of items in completion order
svars == <<assign, pc, out, lock, errBits, depth, order>>

Init == /\ assign \in [Items -> Threads] /\ pc = [i \in Items |-> "todo"] /\ out = [i \in Items |-> 0]
        /\ lock = -1 /\ errBits = {} /\ depth = [t \in Threads |-> 0] /\ order = <<>>
\* a thread runs one item at a time
Busy(t) == \E i \in Items : assign[i] = t /\ pc[i] \in {"running", "locked"}
Start(i) == /\ pc[i] = "todo" /\ ~Busy(assign[i])
            /\ pc' = [pc EXCEPT ![i] = "running"] /\ depth' = [depth EXCEPT ![assign[i]] = @ + 1]
            /\ UNCHANGED <<assign, out, lock, errBits, order>>
\* an item that has an error to report takes the lock first
Acquire(i) == /\ pc[i] = "running" /\ i \in ErrItems /\ lock = -1
              /\ lock' = assign[i] /\ pc' = [pc EXCEPT ![i] = "locked"]
              /\ UNCHANGED <<assign, out, errBits, depth, order>>
Report(i) == /\ pc[i] = "locked" /\ lock = assign[i]
             /\ errBits' = errBits \cup {i} /\ lock' = -1
             /\ pc' = [pc EXCEPT ![i] = "done"] /\ out' = [out EXCEPT ![i] = 1]
             /\ depth' = [depth EXCEPT ![assign[i]] = @ - 1] /\ order' = Append(order, i) /\ UNCHANGED assign
Finish(i) == /\ pc[i] = "running" /\ i \notin ErrItems
             /\ pc' = [pc EXCEPT ![i] = "done"] /\ out' = [out EXCEPT ![i] = 1]
             /\ depth' = [depth EXCEPT ![assign[i]] = @ - 1] /\ order' = Append(order, i)
             /\ UNCHANGED <<assign, lock, errBits>>
Next == \E i \in Items : Start(i) \/ Acquire(i) \/ Report(i) \/ Finish(i)
Spec == Init /\ [][Next]_svars

AllDone == \A i \in Items : pc[i] = "done"
\* the joined result does not depend on the schedule: it is the serial result
Confluent == AllDone => (out = [i \in Items |-> 1] /\ errBits = ErrItems)
\* mutual exclusion of the lock; it is free when the loop returns
LockOK == (lock # -1 => Cardinality({i \in Items : pc[i] = "locked"}) = 1) /\ (AllDone => lock = -1)
\* each thread's indentation depth returns to its value at loop entry
DepthOK == AllDone => \A t \in Threads : depth[t] = 0
\* every item completes exactly once
OnceOK == \A i \in Items : Cardinality({k \in 1..Len(order) : order[k] = i}) <= 1
Termination == <>AllDone
=============================================================================
