SPECIFICATION TSpec
CONSTANTS
  CvNames = {}
  BiasNames = {}
INVARIANTS Progress NoDangling
CHECK_DEADLOCK FALSE
