SPECIFICATION MCSpec
CONSTANTS
  Obj <- ObjT
  KindOf <- KindOfT
  Feat <- FeatT
  FType <- FTypeT
  ReqSelf <- ReqSelfT
  ReqAlt <- ReqAltT
  ReqChild <- ReqChildT
  ReqExcl <- ReqExclT
  Menu <- Menu_Q
  ZS <- ZS_Q
  Starts <- Starts_Q
  MaxLen = 8
INVARIANTS Superpose Schedule Scaling NonBiasing Emit
\* vacuity: on
CHECK_DEADLOCK FALSE
