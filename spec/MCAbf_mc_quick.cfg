SPECIFICATION MCSpec
CONSTANTS
  NB = 3
  FS <- FS_A
  ParamSet <- PS_Quick
  MaxSteps = 4
  MaxRuns = 2
  D = 2520
  EmitLen = 4
VIEW View
INVARIANTS TypeOK CountOK CountExact SumExact AppliedOK OutsideZero NoBiasZero CapOK DeliveredOK
CHECK_DEADLOCK FALSE
\* vacuity: on
