------------------------------ MODULE MCOutput ------------------------------
EXTENDS Output, Json
CONSTANTS EmitLen
PO(f, l, s, tg) == [freq |-> f, len |-> l, stride |-> s, toggle |-> tg, clen |-> 0, cstride |-> 1, start |-> 0]
PC(cl, cs, st) == [freq |-> 1, len |-> 0, stride |-> 1, toggle |-> FALSE, clen |-> cl, cstride |-> cs, start |-> st]
PS_Q == { PO(1, 0, 1, TRUE), PO(2, 0, 1, TRUE), PO(3, 2, 1, FALSE), PO(1, 3, 1, FALSE), PO(2, 2, 2, FALSE), PO(1, 3, 2, FALSE), PC(2, 1, 0), PC(1, 2, 0), PC(2, 1, 5), PC(1, 1, 3) }
XS_Q == {1, 2, 4}
WitInit == TLCSet(1, FALSE) /\ TLCSet(2, FALSE) /\ TLCSet(3, FALSE)
Wit == /\ ((Len(ravg) >= 2) => TLCSet(1, TRUE))
       /\ ((acfN >= 2 /\ runs > 1) => TLCSet(3, TRUE))
       /\ ((\E i \in 1..Len(traj) : traj[i].k = "data" /\ traj[i].ncols = 3) => TLCSet(2, TRUE))
WitPost == TLCGet(1) /\ TLCGet(2) /\ TLCGet(3)
MCInit == Init /\ WitInit
MCSpec == MCInit /\ [][Next]_ovars
=============================================================================
