------------------------------ MODULE MCOutput ------------------------------
EXTENDS Output, Json
CONSTANTS EmitLen
PO(f, l, s, tg) == [freq |-> f, len |-> l, stride |-> s, toggle |-> tg, clen |-> 0, cstride |-> 1, start |-> 0]
PC(cl, cs, st) == [freq |-> 1, len |-> 0, stride |-> 1, toggle |-> FALSE, clen |-> cl, cstride |-> cs, start |-> st]
PS_Q == { PO(1, 0, 1, TRUE), PO(2, 0, 1, TRUE), PO(3, 2, 1, FALSE), PO(1, 3, 1, FALSE), PO(2, 2, 2, FALSE), PO(1, 3, 2, FALSE), PC(2, 1, 0), PC(1, 2, 0), PC(2, 1, 5), PC(1, 1, 3) }
XS_Q == {1, 2, 4}
\* vacuity witnesses: the check searches a state satisfying each Witness<i> (a violation of NoWitness<i>)
Witness1 == Len(ravg) >= 2
NoWitness1 == ~Witness1
Witness2 == \E i \in 1..Len(traj) : traj[i].k = "data" /\ traj[i].ncols = 3
NoWitness2 == ~Witness2
Witness3 == acfN >= 2 /\ runs > 1
NoWitness3 == ~Witness3
MCInit == Init
MCSpec == MCInit /\ [][Next]_ovars
=============================================================================
