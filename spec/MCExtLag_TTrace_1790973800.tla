---- MODULE MCExtLag_TTrace_1790973800 ----
EXTENDS Sequences, TLCExt, Toolbox, Naturals, TLC, MCExtLag

_expression ==
    LET MCExtLag_TEExpression == INSTANCE MCExtLag_TEExpression
    IN MCExtLag_TEExpression!expression
----

_trace ==
    LET MCExtLag_TETrace == INSTANCE MCExtLag_TETrace
    IN MCExtLag_TETrace!trace
----

_inv ==
    ~(
        TLCGet("level") = Len(_TETrace)
        /\
        inited = (TRUE)
        /\
        lastIn = ([x |-> -128, fb |-> 128, r |-> 0])
        /\
        acts = (<<[a |-> "First", x |-> 192, fb |-> 0, r |-> 0, it |-> 0, xr |-> 192, vr |-> 0, fat |-> 0, ep2 |-> 0, ek8 |-> 0, ft |-> 0, xe |-> 192, ve |-> 0, err |-> FALSE, edge |-> TRUE], [a |-> "Step", x |-> -128, fb |-> 128, r |-> 0, it |-> 1, xr |-> 192, vr |-> 0, fat |-> 320, ep2 |-> 102400, ek8 |-> 36864, ft |-> -192, xe |-> 0, ve |-> -192, err |-> FALSE, edge |-> FALSE], [a |-> "Restart", x |-> -128, fb |-> 128, r |-> 0, it |-> 1, xr |-> 192, vr |-> 0, fat |-> 320, ep2 |-> 102400, ek8 |-> 36864, ft |-> -192, xe |-> 0, ve |-> -192, err |-> FALSE, edge |-> FALSE], [a |-> "NewRun", x |-> -128, fb |-> 128, r |-> 0, it |-> 1, xr |-> -128, vr |-> 0, fat |-> 0, ep2 |-> 0, ek8 |-> 16384, ft |-> 128, xe |-> 0, ve |-> 128, err |-> FALSE, edge |-> FALSE]>>)
        /\
        afterRestart = (FALSE)
        /\
        quirk = ({})
        /\
        hist = (<<[x |-> 192, fb |-> 0, r |-> 0], [x |-> -128, fb |-> 128, r |-> 0]>>)
        /\
        prevXe = (-128)
        /\
        prevVe = (0)
        /\
        rel = (0)
        /\
        cont = (TRUE)
        /\
        prevT = (0)
        /\
        eKin8 = (16384)
        /\
        fAtoms = (0)
        /\
        started = (TRUE)
        /\
        it = (1)
        /\
        errRep = (FALSE)
        /\
        xe = (0)
        /\
        ve = (128)
        /\
        p = ([langevin |-> FALSE, reflLo |-> FALSE, reflHi |-> TRUE, lower |-> 0, upper |-> 3, subtract |-> FALSE, sc |-> 64])
        /\
        vRep = (0)
        /\
        xRep = (-128)
        /\
        edgeRep = (FALSE)
        /\
        ePot2 = (0)
        /\
        xOld = (-128)
        /\
        ftRep = (128)
        /\
        runs = (3)
    )
----

_init ==
    /\ runs = _TETrace[1].runs
    /\ prevT = _TETrace[1].prevT
    /\ acts = _TETrace[1].acts
    /\ ePot2 = _TETrace[1].ePot2
    /\ xRep = _TETrace[1].xRep
    /\ xOld = _TETrace[1].xOld
    /\ cont = _TETrace[1].cont
    /\ p = _TETrace[1].p
    /\ quirk = _TETrace[1].quirk
    /\ rel = _TETrace[1].rel
    /\ hist = _TETrace[1].hist
    /\ fAtoms = _TETrace[1].fAtoms
    /\ errRep = _TETrace[1].errRep
    /\ vRep = _TETrace[1].vRep
    /\ prevVe = _TETrace[1].prevVe
    /\ inited = _TETrace[1].inited
    /\ eKin8 = _TETrace[1].eKin8
    /\ it = _TETrace[1].it
    /\ ve = _TETrace[1].ve
    /\ ftRep = _TETrace[1].ftRep
    /\ lastIn = _TETrace[1].lastIn
    /\ prevXe = _TETrace[1].prevXe
    /\ started = _TETrace[1].started
    /\ edgeRep = _TETrace[1].edgeRep
    /\ afterRestart = _TETrace[1].afterRestart
    /\ xe = _TETrace[1].xe
----

_next ==
    /\ \E i,j \in DOMAIN _TETrace:
        /\ \/ /\ j = i + 1
              /\ i = TLCGet("level")
        /\ runs  = _TETrace[i].runs
        /\ runs' = _TETrace[j].runs
        /\ prevT  = _TETrace[i].prevT
        /\ prevT' = _TETrace[j].prevT
        /\ acts  = _TETrace[i].acts
        /\ acts' = _TETrace[j].acts
        /\ ePot2  = _TETrace[i].ePot2
        /\ ePot2' = _TETrace[j].ePot2
        /\ xRep  = _TETrace[i].xRep
        /\ xRep' = _TETrace[j].xRep
        /\ xOld  = _TETrace[i].xOld
        /\ xOld' = _TETrace[j].xOld
        /\ cont  = _TETrace[i].cont
        /\ cont' = _TETrace[j].cont
        /\ p  = _TETrace[i].p
        /\ p' = _TETrace[j].p
        /\ quirk  = _TETrace[i].quirk
        /\ quirk' = _TETrace[j].quirk
        /\ rel  = _TETrace[i].rel
        /\ rel' = _TETrace[j].rel
        /\ hist  = _TETrace[i].hist
        /\ hist' = _TETrace[j].hist
        /\ fAtoms  = _TETrace[i].fAtoms
        /\ fAtoms' = _TETrace[j].fAtoms
        /\ errRep  = _TETrace[i].errRep
        /\ errRep' = _TETrace[j].errRep
        /\ vRep  = _TETrace[i].vRep
        /\ vRep' = _TETrace[j].vRep
        /\ prevVe  = _TETrace[i].prevVe
        /\ prevVe' = _TETrace[j].prevVe
        /\ inited  = _TETrace[i].inited
        /\ inited' = _TETrace[j].inited
        /\ eKin8  = _TETrace[i].eKin8
        /\ eKin8' = _TETrace[j].eKin8
        /\ it  = _TETrace[i].it
        /\ it' = _TETrace[j].it
        /\ ve  = _TETrace[i].ve
        /\ ve' = _TETrace[j].ve
        /\ ftRep  = _TETrace[i].ftRep
        /\ ftRep' = _TETrace[j].ftRep
        /\ lastIn  = _TETrace[i].lastIn
        /\ lastIn' = _TETrace[j].lastIn
        /\ prevXe  = _TETrace[i].prevXe
        /\ prevXe' = _TETrace[j].prevXe
        /\ started  = _TETrace[i].started
        /\ started' = _TETrace[j].started
        /\ edgeRep  = _TETrace[i].edgeRep
        /\ edgeRep' = _TETrace[j].edgeRep
        /\ afterRestart  = _TETrace[i].afterRestart
        /\ afterRestart' = _TETrace[j].afterRestart
        /\ xe  = _TETrace[i].xe
        /\ xe' = _TETrace[j].xe

\* Uncomment the ASSUME below to write the states of the error trace
\* to the given file in Json format. Note that you can pass any tuple
\* to `JsonSerialize`. For example, a sub-sequence of _TETrace.
    \* ASSUME
    \*     LET J == INSTANCE Json
    \*         IN J!JsonSerialize("MCExtLag_TTrace_1790973800.json", _TETrace)

=============================================================================

 Note that you can extract this module `MCExtLag_TEExpression`
  to a dedicated file to reuse `expression` (the module in the 
  dedicated `MCExtLag_TEExpression.tla` file takes precedence 
  over the module `MCExtLag_TEExpression` below).

---- MODULE MCExtLag_TEExpression ----
EXTENDS Sequences, TLCExt, Toolbox, Naturals, TLC, MCExtLag

expression == 
    [
        \* To hide variables of the `MCExtLag` spec from the error trace,
        \* remove the variables below.  The trace will be written in the order
        \* of the fields of this record.
        runs |-> runs
        ,prevT |-> prevT
        ,acts |-> acts
        ,ePot2 |-> ePot2
        ,xRep |-> xRep
        ,xOld |-> xOld
        ,cont |-> cont
        ,p |-> p
        ,quirk |-> quirk
        ,rel |-> rel
        ,hist |-> hist
        ,fAtoms |-> fAtoms
        ,errRep |-> errRep
        ,vRep |-> vRep
        ,prevVe |-> prevVe
        ,inited |-> inited
        ,eKin8 |-> eKin8
        ,it |-> it
        ,ve |-> ve
        ,ftRep |-> ftRep
        ,lastIn |-> lastIn
        ,prevXe |-> prevXe
        ,started |-> started
        ,edgeRep |-> edgeRep
        ,afterRestart |-> afterRestart
        ,xe |-> xe
        
        \* Put additional constant-, state-, and action-level expressions here:
        \* ,_stateNumber |-> _TEPosition
        \* ,_runsUnchanged |-> runs = runs'
        
        \* Format the `runs` variable as Json value.
        \* ,_runsJson |->
        \*     LET J == INSTANCE Json
        \*     IN J!ToJson(runs)
        
        \* Lastly, you may build expressions over arbitrary sets of states by
        \* leveraging the _TETrace operator.  For example, this is how to
        \* count the number of times a spec variable changed up to the current
        \* state in the trace.
        \* ,_runsModCount |->
        \*     LET F[s \in DOMAIN _TETrace] ==
        \*         IF s = 1 THEN 0
        \*         ELSE IF _TETrace[s].runs # _TETrace[s-1].runs
        \*             THEN 1 + F[s-1] ELSE F[s-1]
        \*     IN F[_TEPosition - 1]
    ]

=============================================================================



Parsing and semantic processing can take forever if the trace below is long.
 In this case, it is advised to uncomment the module below to deserialize the
 trace from a generated binary file.

\*
\*---- MODULE MCExtLag_TETrace ----
\*EXTENDS IOUtils, TLC, MCExtLag
\*
\*trace == IODeserialize("MCExtLag_TTrace_1790973800.bin", TRUE)
\*
\*=============================================================================
\*

---- MODULE MCExtLag_TETrace ----
EXTENDS TLC, MCExtLag

trace == 
    <<
    ([inited |-> FALSE,lastIn |-> [x |-> 0, fb |-> 0, r |-> 0],acts |-> <<>>,afterRestart |-> FALSE,quirk |-> {},hist |-> <<>>,prevXe |-> 0,prevVe |-> 0,rel |-> 0,cont |-> FALSE,prevT |-> -1,eKin8 |-> 0,fAtoms |-> 0,started |-> FALSE,it |-> 0,errRep |-> FALSE,xe |-> 0,ve |-> 0,p |-> [langevin |-> FALSE, reflLo |-> FALSE, reflHi |-> TRUE, lower |-> 0, upper |-> 3, subtract |-> FALSE, sc |-> 64],vRep |-> 0,xRep |-> 0,edgeRep |-> FALSE,ePot2 |-> 0,xOld |-> 0,ftRep |-> 0,runs |-> 1]),
    ([inited |-> TRUE,lastIn |-> [x |-> 192, fb |-> 0, r |-> 0],acts |-> <<[a |-> "First", x |-> 192, fb |-> 0, r |-> 0, it |-> 0, xr |-> 192, vr |-> 0, fat |-> 0, ep2 |-> 0, ek8 |-> 0, ft |-> 0, xe |-> 192, ve |-> 0, err |-> FALSE, edge |-> TRUE]>>,afterRestart |-> FALSE,quirk |-> {},hist |-> <<[x |-> 192, fb |-> 0, r |-> 0]>>,prevXe |-> 192,prevVe |-> 0,rel |-> 0,cont |-> FALSE,prevT |-> 0,eKin8 |-> 0,fAtoms |-> 0,started |-> TRUE,it |-> 0,errRep |-> FALSE,xe |-> 192,ve |-> 0,p |-> [langevin |-> FALSE, reflLo |-> FALSE, reflHi |-> TRUE, lower |-> 0, upper |-> 3, subtract |-> FALSE, sc |-> 64],vRep |-> 0,xRep |-> 192,edgeRep |-> TRUE,ePot2 |-> 0,xOld |-> 192,ftRep |-> 0,runs |-> 1]),
    ([inited |-> TRUE,lastIn |-> [x |-> -128, fb |-> 128, r |-> 0],acts |-> <<[a |-> "First", x |-> 192, fb |-> 0, r |-> 0, it |-> 0, xr |-> 192, vr |-> 0, fat |-> 0, ep2 |-> 0, ek8 |-> 0, ft |-> 0, xe |-> 192, ve |-> 0, err |-> FALSE, edge |-> TRUE], [a |-> "Step", x |-> -128, fb |-> 128, r |-> 0, it |-> 1, xr |-> 192, vr |-> 0, fat |-> 320, ep2 |-> 102400, ek8 |-> 36864, ft |-> -192, xe |-> 0, ve |-> -192, err |-> FALSE, edge |-> FALSE]>>,afterRestart |-> FALSE,quirk |-> {},hist |-> <<[x |-> 192, fb |-> 0, r |-> 0], [x |-> -128, fb |-> 128, r |-> 0]>>,prevXe |-> 192,prevVe |-> 0,rel |-> 1,cont |-> FALSE,prevT |-> 1,eKin8 |-> 36864,fAtoms |-> 320,started |-> TRUE,it |-> 1,errRep |-> FALSE,xe |-> 0,ve |-> -192,p |-> [langevin |-> FALSE, reflLo |-> FALSE, reflHi |-> TRUE, lower |-> 0, upper |-> 3, subtract |-> FALSE, sc |-> 64],vRep |-> 0,xRep |-> 192,edgeRep |-> FALSE,ePot2 |-> 102400,xOld |-> -128,ftRep |-> -192,runs |-> 1]),
    ([inited |-> TRUE,lastIn |-> [x |-> -128, fb |-> 128, r |-> 0],acts |-> <<[a |-> "First", x |-> 192, fb |-> 0, r |-> 0, it |-> 0, xr |-> 192, vr |-> 0, fat |-> 0, ep2 |-> 0, ek8 |-> 0, ft |-> 0, xe |-> 192, ve |-> 0, err |-> FALSE, edge |-> TRUE], [a |-> "Step", x |-> -128, fb |-> 128, r |-> 0, it |-> 1, xr |-> 192, vr |-> 0, fat |-> 320, ep2 |-> 102400, ek8 |-> 36864, ft |-> -192, xe |-> 0, ve |-> -192, err |-> FALSE, edge |-> FALSE], [a |-> "Restart", x |-> -128, fb |-> 128, r |-> 0, it |-> 1, xr |-> 192, vr |-> 0, fat |-> 320, ep2 |-> 102400, ek8 |-> 36864, ft |-> -192, xe |-> 0, ve |-> -192, err |-> FALSE, edge |-> FALSE]>>,afterRestart |-> FALSE,quirk |-> {},hist |-> <<[x |-> 192, fb |-> 0, r |-> 0], [x |-> -128, fb |-> 128, r |-> 0]>>,prevXe |-> 192,prevVe |-> 0,rel |-> 0,cont |-> FALSE,prevT |-> 0,eKin8 |-> 36864,fAtoms |-> 320,started |-> TRUE,it |-> 1,errRep |-> FALSE,xe |-> 0,ve |-> -192,p |-> [langevin |-> FALSE, reflLo |-> FALSE, reflHi |-> TRUE, lower |-> 0, upper |-> 3, subtract |-> FALSE, sc |-> 64],vRep |-> 0,xRep |-> 192,edgeRep |-> FALSE,ePot2 |-> 102400,xOld |-> -128,ftRep |-> -192,runs |-> 2]),
    ([inited |-> TRUE,lastIn |-> [x |-> -128, fb |-> 128, r |-> 0],acts |-> <<[a |-> "First", x |-> 192, fb |-> 0, r |-> 0, it |-> 0, xr |-> 192, vr |-> 0, fat |-> 0, ep2 |-> 0, ek8 |-> 0, ft |-> 0, xe |-> 192, ve |-> 0, err |-> FALSE, edge |-> TRUE], [a |-> "Step", x |-> -128, fb |-> 128, r |-> 0, it |-> 1, xr |-> 192, vr |-> 0, fat |-> 320, ep2 |-> 102400, ek8 |-> 36864, ft |-> -192, xe |-> 0, ve |-> -192, err |-> FALSE, edge |-> FALSE], [a |-> "Restart", x |-> -128, fb |-> 128, r |-> 0, it |-> 1, xr |-> 192, vr |-> 0, fat |-> 320, ep2 |-> 102400, ek8 |-> 36864, ft |-> -192, xe |-> 0, ve |-> -192, err |-> FALSE, edge |-> FALSE], [a |-> "NewRun", x |-> -128, fb |-> 128, r |-> 0, it |-> 1, xr |-> -128, vr |-> 0, fat |-> 0, ep2 |-> 0, ek8 |-> 16384, ft |-> 128, xe |-> 0, ve |-> 128, err |-> FALSE, edge |-> FALSE]>>,afterRestart |-> FALSE,quirk |-> {},hist |-> <<[x |-> 192, fb |-> 0, r |-> 0], [x |-> -128, fb |-> 128, r |-> 0]>>,prevXe |-> -128,prevVe |-> 0,rel |-> 0,cont |-> TRUE,prevT |-> 0,eKin8 |-> 16384,fAtoms |-> 0,started |-> TRUE,it |-> 1,errRep |-> FALSE,xe |-> 0,ve |-> 128,p |-> [langevin |-> FALSE, reflLo |-> FALSE, reflHi |-> TRUE, lower |-> 0, upper |-> 3, subtract |-> FALSE, sc |-> 64],vRep |-> 0,xRep |-> -128,edgeRep |-> FALSE,ePot2 |-> 0,xOld |-> -128,ftRep |-> 128,runs |-> 3])
    >>
----


=============================================================================

---- CONFIG MCExtLag_TTrace_1790973800 ----
CONSTANTS
    XS <- XS_Q
    FB <- FB_Q
    RS <- RS_Q
    ParamSet <- PS_Q
    MaxSteps = 5
    MaxRuns = 3
    EmitLen = 6

INVARIANT
    _inv

CHECK_DEADLOCK
    \* CHECK_DEADLOCK off because of PROPERTY or INVARIANT above.
    FALSE

INIT
    _init

NEXT
    _next

CONSTANT
    _TETrace <- _trace

ALIAS
    _expression
=============================================================================
\* Generated on Fri Oct 02 20:43:22 UTC 2026