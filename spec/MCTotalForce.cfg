SPECIFICATION Spec
CONSTANTS
  FA <- FA_Q
  LAM <- LAM_Q
  JS <- JS_Q
  ParamSet <- PS_Q
  MaxSteps = 3
INVARIANTS LateOK SameOK InverseOK SubtractOK
CHECK_DEADLOCK FALSE
