---------------------------- MODULE OptRotTrace ----------------------------
(* C02: the rotation used for fitting is the least-squares optimum.  Each event carries the mean squared deviation the real *)
(* code reports after its optimal fit (x 1e6, rounded up) and the deviations obtained with competing rotations (24 cube       *)
(* rotations and random ones, x 1e6, rounded down): none may be smaller.                                                     *)
EXTENDS Integers, Sequences, TLC, Json, IOUtils
Trace == ndJsonDeserialize(IOEnv.TRACE)
VARIABLE l
Ev == Trace[l]
TInit == l = 1
TFit == /\ l <= Len(Trace) /\ Ev.e = "Fit" /\ l' = l + 1
        /\ \A i \in 1..Len(Ev.cands) : Ev.msd <= Ev.cands[i] + 2
TSpec == TInit /\ [][TFit]_l
Progress == PrintT(<<"MAXL", l>>)
=============================================================================
