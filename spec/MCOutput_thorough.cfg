SPECIFICATION MCSpec
CONSTANTS
  XS <- XS_Q
  ParamSet <- PS_Q
  MaxSteps = 7
  MaxRuns = 3
  EmitLen = 0
INVARIANTS ColumnsOK OncePerRun MultiplesOnly NoGap RunAveOK RunAveComplete AcfOK AcfOnce
\* vacuity: on
CHECK_DEADLOCK FALSE
