SPECIFICATION MCSpec
CONSTANTS
  VS <- VS_Q
  ParamSet <- PS_Q
  MaxSteps = 6
  MaxRuns = 2
INVARIANTS ItemsOK AcfOK
\* vacuity: on
CHECK_DEADLOCK FALSE
