----------------------------- MODULE ResumeAbf -----------------------------
(* C03 for ABF: two copies of the mechanism of Abf.tla fed the same inputs;  *)
(* copy B is stopped, saved, reloaded in a fresh instance and repeats the    *)
(* step at arbitrary points; copy A runs uninterrupted.                      *)
EXTENDS AbfB
VARIABLE resumes
FS_R == {-1, 2}
PR(same, sz, mn, fl, per, mf, ab, sub, oth) ==
  [sameStep |-> same, stepZero |-> sz, minS |-> mn, fullS |-> fl, periodic |-> per, maxF |-> mf,
   applyBias |-> ab, subtract |-> sub, otherF |-> oth]
PS_R == { PR(same, FALSE, r[1], r[2], per, 0, TRUE, sub, oth) :
            same \in BOOLEAN, sub \in BOOLEAN, oth \in {0, -2}, per \in {FALSE}, r \in {<<0, 1>>, <<1, 3>>} }
        \cup { PR(FALSE, FALSE, 0, 1, TRUE, 0, TRUE, FALSE, 0), PR(TRUE, TRUE, 0, 1, FALSE, 0, TRUE, FALSE, 0) }
pvars == <<vars, varsB, resumes>>
PInit == /\ \E pp \in ParamSet : InitWith(pp) /\ InitWithB(pp)
         /\ resumes = 0
PFirst(x, f) == First(x, f) /\ FirstB(x, f) /\ UNCHANGED <<p, resumes>>
PStep(x, f) == Step(x, f) /\ StepB(x, f) /\ UNCHANGED <<p, resumes>>
PNewRun == NewRun /\ NewRunB /\ UNCHANGED <<p, resumes>>
PResume == RestartB /\ UNCHANGED <<mech, phys, delivered, runs, quirk, p>> /\ resumes' = resumes + 1
PNext == \/ \E x \in XS, f \in FS : PFirst(x, f * D) \/ PStep(x, f * D)
         \/ PNewRun \/ PResume
PSpec == PInit /\ [][PNext]_pvars
\* with stepZeroData the repeated step of a resumed run is sampled again by design
Comparable == ~(SameStep /\ StepZero)
Indistinguishable == (started /\ Comparable) => (samples = samplesB /\ gsum = gsumB /\ abfF = abfFB /\ it = itB)
\* after the next regular step everything the engine sees is equal again, including the total force
TotalForceSame == (started /\ Comparable /\ relB > 0 /\ rel > 0) => ft = ftB
\* the comparison only involves the two mechanisms: the history variables are hidden from the state identity
PView == <<mech, mechB, p, resumes>>
\* vacuity witnesses: the check searches a state satisfying each Witness<i> (a violation of NoWitness<i>)
Witness1 == resumes > 0 /\ relB > 1 /\ abfFB # 0
NoWitness1 == ~Witness1
PInitW == PInit
PSpecW == PInitW /\ [][PNext]_pvars
=============================================================================
