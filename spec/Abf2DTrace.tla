---------------------------- MODULE Abf2DTrace ----------------------------
(* Validation of executions recorded from the real two-variable ABF against *)
(* Abf2D.tla.  Every event is one engine call; its logged post-state (every *)
(* count, every gradient sum, both applied and both total forces) must     *)
(* equal the post-state of the corresponding specification action.  The    *)
(* recorded runs carry dev = TRUE: the code's named deviation ZeroTotal is *)
(* followed, and reported when it fired (QUIRK).                           *)
EXTENDS Abf2D, Json, IOUtils

TraceLog == ndJsonDeserialize(IOEnv.TRACE)
VARIABLE l
Ev == TraceLog[l]
NBins == NB1 * NB2
BinAt(k) == <<(k - 1) \div NB2, (k - 1) % NB2>>
P2(v) == <<v[1], v[2]>>
Matches(e) == /\ it' = e.it
              /\ \A k \in 1..NBins : samples'[BinAt(k)] = e.s[k] /\ gsum'[BinAt(k)] = P2(e.g[k])
              /\ abfF' = P2(e.F)
              /\ ft' = P2(e.ft)
ParamsOf(q) == [sameStep |-> q.sameStep, minS |-> q.minS, fullS |-> q.fullS, per |-> P2(q.per), maxF |-> P2(q.maxF),
                applyBias |-> q.applyBias, sub |-> P2(q.sub), otherF |-> P2(q.otherF), dev |-> q.dev]
ResetTo(pp) ==
  /\ p' = pp /\ it' = 0 /\ rel' = 0 /\ cont' = FALSE /\ started' = FALSE /\ runs' = 1
  /\ lastX' = Zero2 /\ lastSys' = Zero2 /\ prevTotal' = Zero2 /\ havePrev' = FALSE
  /\ samples' = [b \in Bins2 |-> 0] /\ gsum' = [b \in Bins2 |-> Zero2]
  /\ bin' = Zero2 /\ forceBin' = Zero2 /\ abfF' = Zero2 /\ ft' = Zero2 /\ fOld' = Zero2
  /\ phys' = [s \in 0..MaxSteps |-> Blank] /\ delivered' = {} /\ quirk' = FALSE
TInit == /\ l = 2 /\ InitWith(ParamsOf(TraceLog[1].p))
TStep ==
  /\ l <= Len(TraceLog)
  /\ l' = l + 1
  /\ LET e == Ev IN
     \/ /\ e.e = "Reset" /\ ResetTo(ParamsOf(e.p))
     \/ /\ e.e = "First" /\ UNCHANGED p /\ First(P2(e.x), Scaled(P2(e.f))) /\ Matches(e)
     \/ /\ e.e = "Step" /\ UNCHANGED p /\ Step(P2(e.x), Scaled(P2(e.f))) /\ Matches(e)
     \/ /\ e.e = "NewRun" /\ UNCHANGED p /\ NewRun /\ Matches(e)
     \/ /\ e.e = "Restart" /\ UNCHANGED p /\ Restart /\ Matches(e)
TSpec == TInit /\ [][TStep]_<<vars, l>>
Progress == PrintT(<<"MAXL", l>>) /\ (quirk => PrintT(<<"QUIRK", "zero-total-subtract", l>>))
=============================================================================
