SPECIFICATION VSpec
CONSTANTS
  Geoms <- Geoms_Q
  Masses <- Masses_Q
  Cell <- Cell_Q
INVARIANTS InternalInvariant AxisInvariant MinImageInvariant MinImageShortest Emit
\* vacuity: on
CHECK_DEADLOCK FALSE
