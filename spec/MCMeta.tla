------------------------------ MODULE MCMeta ------------------------------
EXTENDS Meta, Json

CONSTANTS EmitLen
VARIABLE hist

Params(w, hf, gf, ug, kh, hl, per) ==
  [wide |-> w, hillFreq |-> hf, gridFreq |-> gf, useGrids |-> ug, keepHills |-> kh, hardLower |-> hl, periodic |-> per]

PS_Grid == { Params(w, fr[1], fr[2], TRUE, kh, FALSE, FALSE) :
               w \in BOOLEAN, fr \in {<<1, 1>>, <<1, 2>>, <<2, 2>>}, kh \in BOOLEAN }
PS_Misc == { Params(FALSE, 1, 1, FALSE, FALSE, FALSE, FALSE),
             Params(FALSE, 1, 1, TRUE, FALSE, TRUE, FALSE),
             Params(FALSE, 1, 2, TRUE, FALSE, FALSE, TRUE),
             Params(FALSE, 1, 1, TRUE, TRUE, FALSE, TRUE) }
PS_Quick == PS_Grid \cup PS_Misc
XLoDef == -3
XLoSim == -4
PS_Clean == { q \in PS_Quick : q.gridFreq = q.hillFreq /\ (q.wide \/ q.periodic \/ ~q.useGrids) }

Rec(a, x) == [a |-> a, x |-> x, it |-> it', e |-> energy', f |-> force', ee |-> ExpE(1)', ef |-> ExpF(1)',
              q |-> quirk', nh |-> Len(hills'), nog |-> Len(og'), nd |-> Len(deposited')]

\* vacuity witnesses
WitInit == TLCSet(1, FALSE) /\ TLCSet(2, FALSE) /\ TLCSet(3, FALSE) /\ TLCSet(4, FALSE)
Wit == /\ ((started /\ quirk = {} /\ energy > 0 /\ ~InGrid(Pos) /\ UseGrids) => TLCSet(1, TRUE))  \* off-grid look-up with a non-zero bias
       /\ ((started /\ quirk = {} /\ nb <= Len(hills) /\ UseGrids /\ energy > 0) => TLCSet(2, TRUE))  \* pending hills during a look-up
       /\ ((quirk # {}) => TLCSet(3, TRUE))
       /\ ((runs > 1 /\ quirk = {} /\ energy > 0) => TLCSet(4, TRUE))
WitPost == TLCGet(1) /\ TLCGet(2) /\ TLCGet(3) /\ TLCGet(4)

MCInit == Init /\ hist = <<>> /\ WitInit
MCNext == /\ Len(hist) < EmitLen
          /\ \/ \E P \in XLo..XHi : (p.wide => P % 2 = 1) /\ First(P) /\ hist' = Append(hist, Rec("First", P))
             \/ \E P \in XLo..XHi : (p.wide => P % 2 = 1) /\ Step(P) /\ hist' = Append(hist, Rec("Step", P))
             \/ NewRun /\ hist' = Append(hist, Rec("NewRun", lastX))
             \/ Restart /\ hist' = Append(hist, Rec("Restart", lastX))
MCSpec == MCInit /\ [][MCNext]_<<vars, hist>>
View == vars
Emit == (Len(hist) = EmitLen) => PrintT(<<"BEH", ToJson([p |-> p, nb |-> NB, acts |-> hist])>>)
=============================================================================
