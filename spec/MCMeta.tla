------------------------------ MODULE MCMeta ------------------------------
EXTENDS Meta, Json

CONSTANTS EmitLen
VARIABLE hist

Params(w, hf, gf, ug, kh, hl, per) ==
  [wide |-> w, hillFreq |-> hf, gridFreq |-> gf, useGrids |-> ug, keepHills |-> kh, hardLower |-> hl, periodic |-> per]

PS_Grid == { Params(w, fr[1], fr[2], TRUE, kh, FALSE, FALSE) :
               w \in BOOLEAN, fr \in {<<1, 1>>, <<1, 2>>, <<2, 2>>}, kh \in BOOLEAN }
PS_Misc == { Params(FALSE, 1, 1, FALSE, FALSE, FALSE, FALSE),
             Params(FALSE, 1, 1, TRUE, FALSE, TRUE, FALSE),
             Params(FALSE, 1, 2, TRUE, FALSE, FALSE, TRUE),
             Params(FALSE, 1, 1, TRUE, TRUE, FALSE, TRUE) }
PS_Quick == PS_Grid \cup PS_Misc
XLoDef == -3
XLoSim == -4
PS_Clean == { q \in PS_Quick : q.gridFreq = q.hillFreq /\ (q.wide \/ q.periodic \/ ~q.useGrids) }

Rec(a, x) == [a |-> a, x |-> x, it |-> it', e |-> energy', f |-> force', ee |-> ExpE(1)', ef |-> ExpF(1)',
              q |-> quirk', nh |-> Len(hills'), nog |-> Len(og'), nd |-> Len(deposited')]

\* vacuity witnesses

\* vacuity witnesses: the check searches a state satisfying each Witness<i> (a violation of NoWitness<i>)
Witness1 == started /\ quirk = {} /\ energy > 0 /\ ~InGrid(Pos) /\ UseGrids
NoWitness1 == ~Witness1
Witness2 == started /\ quirk = {} /\ nb <= Len(hills) /\ UseGrids /\ energy > 0
NoWitness2 == ~Witness2
Witness3 == quirk # {}
NoWitness3 == ~Witness3
Witness4 == runs > 1 /\ quirk = {} /\ energy > 0
NoWitness4 == ~Witness4
MCInit == Init /\ hist = <<>>
MCNext == /\ Len(hist) < EmitLen
          /\ \/ \E P \in XLo..XHi : (p.wide => P % 2 = 1) /\ First(P) /\ hist' = Append(hist, Rec("First", P))
             \/ \E P \in XLo..XHi : (p.wide => P % 2 = 1) /\ Step(P) /\ hist' = Append(hist, Rec("Step", P))
             \/ NewRun /\ hist' = Append(hist, Rec("NewRun", lastX))
             \/ Restart /\ hist' = Append(hist, Rec("Restart", lastX))
MCSpec == MCInit /\ [][MCNext]_<<vars, hist>>
View == vars
Emit == (Len(hist) = EmitLen) => PrintT(<<"BEH", ToJson([p |-> p, nb |-> NB, acts |-> hist])>>)
=============================================================================
