SPECIFICATION MCSpec
CONSTANTS
  NB = 5
  XLo <- XLoDef
  XHi = 12
  ParamSet <- PS_Quick
  MaxSteps = 4
  MaxRuns = 2
  EmitLen = 4
VIEW View
INVARIANTS Emit
CHECK_DEADLOCK FALSE
