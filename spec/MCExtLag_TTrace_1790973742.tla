---- MODULE MCExtLag_TTrace_1790973742 ----
EXTENDS Sequences, TLCExt, Toolbox, Naturals, TLC, MCExtLag

_expression ==
    LET MCExtLag_TEExpression == INSTANCE MCExtLag_TEExpression
    IN MCExtLag_TEExpression!expression
----

_trace ==
    LET MCExtLag_TETrace == INSTANCE MCExtLag_TETrace
    IN MCExtLag_TETrace!trace
----

_inv ==
    ~(
        TLCGet("level") = Len(_TETrace)
        /\
        inited = (TRUE)
        /\
        lastIn = ([x |-> 0, fb |-> 0, r |-> 0])
        /\
        acts = (<<[a |-> "First", x |-> 0, fb |-> 0, r |-> -40000, it |-> 0, xr |-> 0, vr |-> 0, fat |-> 0, ep2 |-> 0, ek8 |-> 0, ft |-> 0, xe |-> -16000, ve |-> -32000, err |-> FALSE, edge |-> FALSE], [a |-> "Restart", x |-> 0, fb |-> 0, r |-> -40000, it |-> 0, xr |-> 0, vr |-> 0, fat |-> 0, ep2 |-> 0, ek8 |-> 0, ft |-> 0, xe |-> -16000, ve |-> -32000, err |-> FALSE, edge |-> FALSE], [a |-> "Step", x |-> 120000, fb |-> 0, r |-> 0, it |-> 1, xr |-> -16000, vr |-> -32000, fat |-> -136000, ep2 |-> 0, ek8 |-> 0, ft |-> 136000, xe |-> 67200, ve |-> 62400, err |-> FALSE, edge |-> FALSE], [a |-> "Step", x |-> -80000, fb |-> 80000, r |-> 40000, it |-> 2, xr |-> 67200, vr |-> 62400, fat |-> 147200, ep2 |-> 0, ek8 |-> 0, ft |-> -67200, xe |-> 79360, ve |-> 29120, err |-> FALSE, edge |-> FALSE], [a |-> "Step", x |-> 0, fb |-> 0, r |-> 0, it |-> 3, xr |-> 79360, vr |-> 29120, fat |-> 79360, ep2 |-> 0, ek8 |-> 0, ft |-> -79360, xe |-> 39168, ve |-> -30144, err |-> FALSE, edge |-> FALSE]>>)
        /\
        afterRestart = (FALSE)
        /\
        quirk = ({})
        /\
        hist = (<<[x |-> 0, fb |-> 0, r |-> -40000], [x |-> 120000, fb |-> 0, r |-> 0], [x |-> -80000, fb |-> 80000, r |-> 40000], [x |-> 0, fb |-> 0, r |-> 0]>>)
        /\
        prevXe = (79360)
        /\
        prevVe = (29120)
        /\
        rel = (3)
        /\
        cont = (FALSE)
        /\
        prevT = (3)
        /\
        eKin8 = (0)
        /\
        fAtoms = (79360)
        /\
        started = (TRUE)
        /\
        it = (3)
        /\
        errRep = (FALSE)
        /\
        xe = (39168)
        /\
        ve = (-30144)
        /\
        p = ([langevin |-> TRUE, reflLo |-> FALSE, reflHi |-> FALSE, lower |-> 0, upper |-> 0, subtract |-> FALSE, sc |-> 40000])
        /\
        vRep = (29120)
        /\
        xRep = (79360)
        /\
        edgeRep = (FALSE)
        /\
        ePot2 = (0)
        /\
        xOld = (0)
        /\
        ftRep = (-79360)
        /\
        runs = (2)
    )
----

_init ==
    /\ runs = _TETrace[1].runs
    /\ prevT = _TETrace[1].prevT
    /\ acts = _TETrace[1].acts
    /\ ePot2 = _TETrace[1].ePot2
    /\ xRep = _TETrace[1].xRep
    /\ xOld = _TETrace[1].xOld
    /\ cont = _TETrace[1].cont
    /\ p = _TETrace[1].p
    /\ quirk = _TETrace[1].quirk
    /\ rel = _TETrace[1].rel
    /\ hist = _TETrace[1].hist
    /\ fAtoms = _TETrace[1].fAtoms
    /\ errRep = _TETrace[1].errRep
    /\ vRep = _TETrace[1].vRep
    /\ prevVe = _TETrace[1].prevVe
    /\ inited = _TETrace[1].inited
    /\ eKin8 = _TETrace[1].eKin8
    /\ it = _TETrace[1].it
    /\ ve = _TETrace[1].ve
    /\ ftRep = _TETrace[1].ftRep
    /\ lastIn = _TETrace[1].lastIn
    /\ prevXe = _TETrace[1].prevXe
    /\ started = _TETrace[1].started
    /\ edgeRep = _TETrace[1].edgeRep
    /\ afterRestart = _TETrace[1].afterRestart
    /\ xe = _TETrace[1].xe
----

_next ==
    /\ \E i,j \in DOMAIN _TETrace:
        /\ \/ /\ j = i + 1
              /\ i = TLCGet("level")
        /\ runs  = _TETrace[i].runs
        /\ runs' = _TETrace[j].runs
        /\ prevT  = _TETrace[i].prevT
        /\ prevT' = _TETrace[j].prevT
        /\ acts  = _TETrace[i].acts
        /\ acts' = _TETrace[j].acts
        /\ ePot2  = _TETrace[i].ePot2
        /\ ePot2' = _TETrace[j].ePot2
        /\ xRep  = _TETrace[i].xRep
        /\ xRep' = _TETrace[j].xRep
        /\ xOld  = _TETrace[i].xOld
        /\ xOld' = _TETrace[j].xOld
        /\ cont  = _TETrace[i].cont
        /\ cont' = _TETrace[j].cont
        /\ p  = _TETrace[i].p
        /\ p' = _TETrace[j].p
        /\ quirk  = _TETrace[i].quirk
        /\ quirk' = _TETrace[j].quirk
        /\ rel  = _TETrace[i].rel
        /\ rel' = _TETrace[j].rel
        /\ hist  = _TETrace[i].hist
        /\ hist' = _TETrace[j].hist
        /\ fAtoms  = _TETrace[i].fAtoms
        /\ fAtoms' = _TETrace[j].fAtoms
        /\ errRep  = _TETrace[i].errRep
        /\ errRep' = _TETrace[j].errRep
        /\ vRep  = _TETrace[i].vRep
        /\ vRep' = _TETrace[j].vRep
        /\ prevVe  = _TETrace[i].prevVe
        /\ prevVe' = _TETrace[j].prevVe
        /\ inited  = _TETrace[i].inited
        /\ inited' = _TETrace[j].inited
        /\ eKin8  = _TETrace[i].eKin8
        /\ eKin8' = _TETrace[j].eKin8
        /\ it  = _TETrace[i].it
        /\ it' = _TETrace[j].it
        /\ ve  = _TETrace[i].ve
        /\ ve' = _TETrace[j].ve
        /\ ftRep  = _TETrace[i].ftRep
        /\ ftRep' = _TETrace[j].ftRep
        /\ lastIn  = _TETrace[i].lastIn
        /\ lastIn' = _TETrace[j].lastIn
        /\ prevXe  = _TETrace[i].prevXe
        /\ prevXe' = _TETrace[j].prevXe
        /\ started  = _TETrace[i].started
        /\ started' = _TETrace[j].started
        /\ edgeRep  = _TETrace[i].edgeRep
        /\ edgeRep' = _TETrace[j].edgeRep
        /\ afterRestart  = _TETrace[i].afterRestart
        /\ afterRestart' = _TETrace[j].afterRestart
        /\ xe  = _TETrace[i].xe
        /\ xe' = _TETrace[j].xe

\* Uncomment the ASSUME below to write the states of the error trace
\* to the given file in Json format. Note that you can pass any tuple
\* to `JsonSerialize`. For example, a sub-sequence of _TETrace.
    \* ASSUME
    \*     LET J == INSTANCE Json
    \*         IN J!JsonSerialize("MCExtLag_TTrace_1790973742.json", _TETrace)

=============================================================================

 Note that you can extract this module `MCExtLag_TEExpression`
  to a dedicated file to reuse `expression` (the module in the 
  dedicated `MCExtLag_TEExpression.tla` file takes precedence 
  over the module `MCExtLag_TEExpression` below).

---- MODULE MCExtLag_TEExpression ----
EXTENDS Sequences, TLCExt, Toolbox, Naturals, TLC, MCExtLag

expression == 
    [
        \* To hide variables of the `MCExtLag` spec from the error trace,
        \* remove the variables below.  The trace will be written in the order
        \* of the fields of this record.
        runs |-> runs
        ,prevT |-> prevT
        ,acts |-> acts
        ,ePot2 |-> ePot2
        ,xRep |-> xRep
        ,xOld |-> xOld
        ,cont |-> cont
        ,p |-> p
        ,quirk |-> quirk
        ,rel |-> rel
        ,hist |-> hist
        ,fAtoms |-> fAtoms
        ,errRep |-> errRep
        ,vRep |-> vRep
        ,prevVe |-> prevVe
        ,inited |-> inited
        ,eKin8 |-> eKin8
        ,it |-> it
        ,ve |-> ve
        ,ftRep |-> ftRep
        ,lastIn |-> lastIn
        ,prevXe |-> prevXe
        ,started |-> started
        ,edgeRep |-> edgeRep
        ,afterRestart |-> afterRestart
        ,xe |-> xe
        
        \* Put additional constant-, state-, and action-level expressions here:
        \* ,_stateNumber |-> _TEPosition
        \* ,_runsUnchanged |-> runs = runs'
        
        \* Format the `runs` variable as Json value.
        \* ,_runsJson |->
        \*     LET J == INSTANCE Json
        \*     IN J!ToJson(runs)
        
        \* Lastly, you may build expressions over arbitrary sets of states by
        \* leveraging the _TETrace operator.  For example, this is how to
        \* count the number of times a spec variable changed up to the current
        \* state in the trace.
        \* ,_runsModCount |->
        \*     LET F[s \in DOMAIN _TETrace] ==
        \*         IF s = 1 THEN 0
        \*         ELSE IF _TETrace[s].runs # _TETrace[s-1].runs
        \*             THEN 1 + F[s-1] ELSE F[s-1]
        \*     IN F[_TEPosition - 1]
    ]

=============================================================================



Parsing and semantic processing can take forever if the trace below is long.
 In this case, it is advised to uncomment the module below to deserialize the
 trace from a generated binary file.

\*
\*---- MODULE MCExtLag_TETrace ----
\*EXTENDS IOUtils, TLC, MCExtLag
\*
\*trace == IODeserialize("MCExtLag_TTrace_1790973742.bin", TRUE)
\*
\*=============================================================================
\*

---- MODULE MCExtLag_TETrace ----
EXTENDS TLC, MCExtLag

trace == 
    <<
    ([inited |-> FALSE,lastIn |-> [x |-> 0, fb |-> 0, r |-> 0],acts |-> <<>>,afterRestart |-> FALSE,quirk |-> {},hist |-> <<>>,prevXe |-> 0,prevVe |-> 0,rel |-> 0,cont |-> FALSE,prevT |-> -1,eKin8 |-> 0,fAtoms |-> 0,started |-> FALSE,it |-> 0,errRep |-> FALSE,xe |-> 0,ve |-> 0,p |-> [langevin |-> TRUE, reflLo |-> FALSE, reflHi |-> FALSE, lower |-> 0, upper |-> 0, subtract |-> FALSE, sc |-> 40000],vRep |-> 0,xRep |-> 0,edgeRep |-> FALSE,ePot2 |-> 0,xOld |-> 0,ftRep |-> 0,runs |-> 1]),
    ([inited |-> TRUE,lastIn |-> [x |-> 0, fb |-> 0, r |-> -40000],acts |-> <<[a |-> "First", x |-> 0, fb |-> 0, r |-> -40000, it |-> 0, xr |-> 0, vr |-> 0, fat |-> 0, ep2 |-> 0, ek8 |-> 0, ft |-> 0, xe |-> -16000, ve |-> -32000, err |-> FALSE, edge |-> FALSE]>>,afterRestart |-> FALSE,quirk |-> {},hist |-> <<[x |-> 0, fb |-> 0, r |-> -40000]>>,prevXe |-> 0,prevVe |-> 0,rel |-> 0,cont |-> FALSE,prevT |-> 0,eKin8 |-> 0,fAtoms |-> 0,started |-> TRUE,it |-> 0,errRep |-> FALSE,xe |-> -16000,ve |-> -32000,p |-> [langevin |-> TRUE, reflLo |-> FALSE, reflHi |-> FALSE, lower |-> 0, upper |-> 0, subtract |-> FALSE, sc |-> 40000],vRep |-> 0,xRep |-> 0,edgeRep |-> FALSE,ePot2 |-> 0,xOld |-> 0,ftRep |-> 0,runs |-> 1]),
    ([inited |-> TRUE,lastIn |-> [x |-> 0, fb |-> 0, r |-> -40000],acts |-> <<[a |-> "First", x |-> 0, fb |-> 0, r |-> -40000, it |-> 0, xr |-> 0, vr |-> 0, fat |-> 0, ep2 |-> 0, ek8 |-> 0, ft |-> 0, xe |-> -16000, ve |-> -32000, err |-> FALSE, edge |-> FALSE], [a |-> "Restart", x |-> 0, fb |-> 0, r |-> -40000, it |-> 0, xr |-> 0, vr |-> 0, fat |-> 0, ep2 |-> 0, ek8 |-> 0, ft |-> 0, xe |-> -16000, ve |-> -32000, err |-> FALSE, edge |-> FALSE]>>,afterRestart |-> FALSE,quirk |-> {},hist |-> <<[x |-> 0, fb |-> 0, r |-> -40000]>>,prevXe |-> 0,prevVe |-> 0,rel |-> 0,cont |-> FALSE,prevT |-> 0,eKin8 |-> 0,fAtoms |-> 0,started |-> TRUE,it |-> 0,errRep |-> FALSE,xe |-> -16000,ve |-> -32000,p |-> [langevin |-> TRUE, reflLo |-> FALSE, reflHi |-> FALSE, lower |-> 0, upper |-> 0, subtract |-> FALSE, sc |-> 40000],vRep |-> 0,xRep |-> 0,edgeRep |-> FALSE,ePot2 |-> 0,xOld |-> 0,ftRep |-> 0,runs |-> 2]),
    ([inited |-> TRUE,lastIn |-> [x |-> 120000, fb |-> 0, r |-> 0],acts |-> <<[a |-> "First", x |-> 0, fb |-> 0, r |-> -40000, it |-> 0, xr |-> 0, vr |-> 0, fat |-> 0, ep2 |-> 0, ek8 |-> 0, ft |-> 0, xe |-> -16000, ve |-> -32000, err |-> FALSE, edge |-> FALSE], [a |-> "Restart", x |-> 0, fb |-> 0, r |-> -40000, it |-> 0, xr |-> 0, vr |-> 0, fat |-> 0, ep2 |-> 0, ek8 |-> 0, ft |-> 0, xe |-> -16000, ve |-> -32000, err |-> FALSE, edge |-> FALSE], [a |-> "Step", x |-> 120000, fb |-> 0, r |-> 0, it |-> 1, xr |-> -16000, vr |-> -32000, fat |-> -136000, ep2 |-> 0, ek8 |-> 0, ft |-> 136000, xe |-> 67200, ve |-> 62400, err |-> FALSE, edge |-> FALSE]>>,afterRestart |-> FALSE,quirk |-> {},hist |-> <<[x |-> 0, fb |-> 0, r |-> -40000], [x |-> 120000, fb |-> 0, r |-> 0]>>,prevXe |-> -16000,prevVe |-> -32000,rel |-> 1,cont |-> FALSE,prevT |-> 1,eKin8 |-> 0,fAtoms |-> -136000,started |-> TRUE,it |-> 1,errRep |-> FALSE,xe |-> 67200,ve |-> 62400,p |-> [langevin |-> TRUE, reflLo |-> FALSE, reflHi |-> FALSE, lower |-> 0, upper |-> 0, subtract |-> FALSE, sc |-> 40000],vRep |-> -32000,xRep |-> -16000,edgeRep |-> FALSE,ePot2 |-> 0,xOld |-> 120000,ftRep |-> 136000,runs |-> 2]),
    ([inited |-> TRUE,lastIn |-> [x |-> -80000, fb |-> 80000, r |-> 40000],acts |-> <<[a |-> "First", x |-> 0, fb |-> 0, r |-> -40000, it |-> 0, xr |-> 0, vr |-> 0, fat |-> 0, ep2 |-> 0, ek8 |-> 0, ft |-> 0, xe |-> -16000, ve |-> -32000, err |-> FALSE, edge |-> FALSE], [a |-> "Restart", x |-> 0, fb |-> 0, r |-> -40000, it |-> 0, xr |-> 0, vr |-> 0, fat |-> 0, ep2 |-> 0, ek8 |-> 0, ft |-> 0, xe |-> -16000, ve |-> -32000, err |-> FALSE, edge |-> FALSE], [a |-> "Step", x |-> 120000, fb |-> 0, r |-> 0, it |-> 1, xr |-> -16000, vr |-> -32000, fat |-> -136000, ep2 |-> 0, ek8 |-> 0, ft |-> 136000, xe |-> 67200, ve |-> 62400, err |-> FALSE, edge |-> FALSE], [a |-> "Step", x |-> -80000, fb |-> 80000, r |-> 40000, it |-> 2, xr |-> 67200, vr |-> 62400, fat |-> 147200, ep2 |-> 0, ek8 |-> 0, ft |-> -67200, xe |-> 79360, ve |-> 29120, err |-> FALSE, edge |-> FALSE]>>,afterRestart |-> FALSE,quirk |-> {},hist |-> <<[x |-> 0, fb |-> 0, r |-> -40000], [x |-> 120000, fb |-> 0, r |-> 0], [x |-> -80000, fb |-> 80000, r |-> 40000]>>,prevXe |-> 67200,prevVe |-> 62400,rel |-> 2,cont |-> FALSE,prevT |-> 2,eKin8 |-> 0,fAtoms |-> 147200,started |-> TRUE,it |-> 2,errRep |-> FALSE,xe |-> 79360,ve |-> 29120,p |-> [langevin |-> TRUE, reflLo |-> FALSE, reflHi |-> FALSE, lower |-> 0, upper |-> 0, subtract |-> FALSE, sc |-> 40000],vRep |-> 62400,xRep |-> 67200,edgeRep |-> FALSE,ePot2 |-> 0,xOld |-> -80000,ftRep |-> -67200,runs |-> 2]),
    ([inited |-> TRUE,lastIn |-> [x |-> 0, fb |-> 0, r |-> 0],acts |-> <<[a |-> "First", x |-> 0, fb |-> 0, r |-> -40000, it |-> 0, xr |-> 0, vr |-> 0, fat |-> 0, ep2 |-> 0, ek8 |-> 0, ft |-> 0, xe |-> -16000, ve |-> -32000, err |-> FALSE, edge |-> FALSE], [a |-> "Restart", x |-> 0, fb |-> 0, r |-> -40000, it |-> 0, xr |-> 0, vr |-> 0, fat |-> 0, ep2 |-> 0, ek8 |-> 0, ft |-> 0, xe |-> -16000, ve |-> -32000, err |-> FALSE, edge |-> FALSE], [a |-> "Step", x |-> 120000, fb |-> 0, r |-> 0, it |-> 1, xr |-> -16000, vr |-> -32000, fat |-> -136000, ep2 |-> 0, ek8 |-> 0, ft |-> 136000, xe |-> 67200, ve |-> 62400, err |-> FALSE, edge |-> FALSE], [a |-> "Step", x |-> -80000, fb |-> 80000, r |-> 40000, it |-> 2, xr |-> 67200, vr |-> 62400, fat |-> 147200, ep2 |-> 0, ek8 |-> 0, ft |-> -67200, xe |-> 79360, ve |-> 29120, err |-> FALSE, edge |-> FALSE], [a |-> "Step", x |-> 0, fb |-> 0, r |-> 0, it |-> 3, xr |-> 79360, vr |-> 29120, fat |-> 79360, ep2 |-> 0, ek8 |-> 0, ft |-> -79360, xe |-> 39168, ve |-> -30144, err |-> FALSE, edge |-> FALSE]>>,afterRestart |-> FALSE,quirk |-> {},hist |-> <<[x |-> 0, fb |-> 0, r |-> -40000], [x |-> 120000, fb |-> 0, r |-> 0], [x |-> -80000, fb |-> 80000, r |-> 40000], [x |-> 0, fb |-> 0, r |-> 0]>>,prevXe |-> 79360,prevVe |-> 29120,rel |-> 3,cont |-> FALSE,prevT |-> 3,eKin8 |-> 0,fAtoms |-> 79360,started |-> TRUE,it |-> 3,errRep |-> FALSE,xe |-> 39168,ve |-> -30144,p |-> [langevin |-> TRUE, reflLo |-> FALSE, reflHi |-> FALSE, lower |-> 0, upper |-> 0, subtract |-> FALSE, sc |-> 40000],vRep |-> 29120,xRep |-> 79360,edgeRep |-> FALSE,ePot2 |-> 0,xOld |-> 0,ftRep |-> -79360,runs |-> 2])
    >>
----


=============================================================================

---- CONFIG MCExtLag_TTrace_1790973742 ----
CONSTANTS
    XS <- XS_Q
    FB <- FB_Q
    RS <- RS_Q
    ParamSet <- PS_Q
    MaxSteps = 5
    MaxRuns = 3
    EmitLen = 6

INVARIANT
    _inv

CHECK_DEADLOCK
    \* CHECK_DEADLOCK off because of PROPERTY or INVARIANT above.
    FALSE

INIT
    _init

NEXT
    _next

CONSTANT
    _TETrace <- _trace

ALIAS
    _expression
=============================================================================
\* Generated on Fri Oct 02 20:42:24 UTC 2026