------------------------------ MODULE MCMetric ------------------------------
(* Every pair of lattice values of every type (C18): the metric axioms are invariants of the specification's own      *)
(* functions; every case is printed with the specified distance, gradient, wrapped value and interpolation status.     *)
EXTENDS Metric, Json
CONSTANTS ScalarMax, PeriodicMax
VARIABLES ty, a, b, par
mvars == <<ty, a, b, par>>
NoPar == [P |-> 0, c |-> 0, k |-> 0, K |-> 4]
Scalars == {<<x>> : x \in -ScalarMax..ScalarMax}
Vec3 == Range3({-1, 0, 2})
Vec2 == {<<x, y>> : x \in {-2, 0, 1, 3}, y \in {-1, 0, 2}}
Periods == {4, 6}
Centres == {-3, 0, 1, 2}
Lams == 0..4
MCInit ==
  \/ ty = "scalar" /\ a \in Scalars /\ b \in Scalars /\ par = NoPar
  \/ ty = "vector3" /\ a \in Vec3 /\ b \in Vec3 /\ par = NoPar
  \/ ty = "vector" /\ a \in Vec2 /\ b \in Vec2 /\ par = NoPar
  \/ ty = "periodic" /\ a \in {<<x>> : x \in -PeriodicMax..PeriodicMax} /\ b \in {<<x>> : x \in -PeriodicMax..PeriodicMax}
       /\ \E P \in Periods, c \in Centres : par = [NoPar EXCEPT !.P = P, !.c = c]
  \/ ty = "unit" /\ a \in Units /\ b \in Units /\ \E k \in Lams : par = [NoPar EXCEPT !.k = k]
  \/ ty = "quat" /\ a \in Quats /\ b \in Quats /\ \E k \in {0, 1, 2, 4} : par = [NoPar EXCEPT !.k = k]
MCNext == FALSE /\ UNCHANGED mvars
MCSpec == MCInit /\ [][MCNext]_mvars

Euclid == ty \in {"scalar", "vector3", "vector"}
Unit(i, n) == [j \in 1..n |-> IF j = i THEN 1 ELSE 0]
Add(x, y) == [i \in 1..Len(x) |-> x[i] + y[i]]

EuclidMetric == Euclid =>
  /\ ED2(a, b) >= 0 /\ ED2(a, b) = ED2(b, a) /\ (ED2(a, b) = 0 <=> a = b)
  /\ \A i \in 1..Len(a) : ED2(Add(a, Unit(i, Len(a))), b) - ED2(Sub(a, Unit(i, Len(a))), b) = 2 * EGrad(a, b)[i]
PeriodicMetric == ty = "periodic" =>
  LET x == a[1]  y == b[1]  P == par.P IN
  /\ PD2(x, y, P) >= 0 /\ PD2(x, y, P) = PD2(y, x, P)
  /\ (PD2(x, y, P) = 0 <=> Equivalent(x, y, P))
  /\ 4 * PD2(x, y, P) <= P * P
  /\ \A m \in {-2, -1, 1, 3} : PD2(x + m * P, y, P) = PD2(x, y, P) /\ PD2(x, y + m * P, P) = PD2(x, y, P)
                              /\ PGrad(x + m * P, y, P) = PGrad(x, y, P)
  \* true derivative (exact symmetric difference of a quadratic) away from the cut locus
  /\ (2 * Image(x - y, P) <= P - 2 /\ 2 * Image(x - y, P) >= 2 - P) => PD2(x + 1, y, P) - PD2(x - 1, y, P) = 2 * PGrad(x, y, P)
  /\ ~AtCut(x, y, P) => PGrad(x, y, P) = -PGrad(y, x, P)
WrapOK == ty = "periodic" =>
  LET x == a[1]  P == par.P  c == par.c  w == Wrap(x, c, P) IN
  /\ Equivalent(w, x, P) /\ 2 * w >= 2 * c - P /\ 2 * w < 2 * c + P
  /\ Wrap(w, c, P) = w
  /\ \A m \in {-2, 1} : Wrap(x + m * P, c, P) = w
AngularTable == ty \in {"unit", "quat"} => Cos2Exact(a, b) /\ Cos2x4(a, b) \in {0, 1, 2, 4}
UnitMetric == ty = "unit" =>
  /\ UAngle(a, b) = UAngle(b, a) /\ (UAngle(a, b) = 0 <=> a = b)
  /\ Dot(TanU(a, b), a.w) = 0
  /\ 4 * Norm2(TanU(a, b)) = a.s * a.s * b.s * Sin2x4(a, b)
QuatMetric == ty = "quat" =>
  LET mb == [w |-> Neg(b.w), s |-> b.s] IN
  /\ QAngle(a, b) = QAngle(b, a) /\ QAngle(a, b) \in 0..6
  /\ (QAngle(a, b) = 0 <=> (a = b \/ a = mb))
  /\ QAngle(a, mb) = QAngle(a, b)
  /\ Dot(TanU(a, QNear(a, b)), a.w) = 0
  /\ 4 * Norm2(TanU(a, QNear(a, b))) = a.s * a.s * b.s * Sin2x4(a, b)
  /\ Angle(a, b) # 6 => TanU(a, QNear(a, b)) = TanU(a, QNear(a, mb))

Undefined == ty \in {"unit", "quat"} /\ a.w = Neg(b.w) /\ 2 * par.k = par.K
Emit == PrintT(<<"BEH", ToJson(
  IF Euclid THEN [ty |-> ty, a |-> a, b |-> b, d2 |-> ED2(a, b), grad |-> EGrad(a, b)]
  ELSE IF ty = "periodic" THEN [ty |-> ty, a |-> a[1], b |-> b[1], P |-> par.P, c |-> par.c, d2 |-> PD2(a[1], b[1], par.P),
                                grad |-> PGrad(a[1], b[1], par.P), cut |-> AtCut(a[1], b[1], par.P), wrap |-> Wrap(a[1], par.c, par.P)]
  ELSE IF ty = "unit" THEN [ty |-> ty, a |-> a, b |-> b, n |-> UAngle(a, b), u |-> TanU(a, b), k |-> par.k, K |-> par.K, undef |-> Undefined]
  ELSE [ty |-> ty, a |-> a, b |-> b, n |-> QAngle(a, b), cut |-> Angle(a, b) = 6, u |-> TanU(a, QNear(a, b)), sb |-> b.s,
        k |-> par.k, K |-> par.K, undef |-> Undefined])>>)

Witness1 == ty = "periodic" /\ AtCut(a[1], b[1], par.P)
NoWitness1 == ~Witness1
Witness2 == ty = "quat" /\ Angle(a, b) > 6
NoWitness2 == ~Witness2
Witness3 == ty = "periodic" /\ a[1] - b[1] > par.P /\ Wrap(a[1], par.c, par.P) # a[1]
NoWitness3 == ~Witness3
Witness4 == Undefined
NoWitness4 == ~Witness4
=============================================================================
