----------------------------- MODULE TotalForce -----------------------------
(***************************************************************************)
(* Total-force measurement as the inverse of force application (C07).      *)
(* Closed loop: at step s Colvars applies the force fa(s) on a variable;   *)
(* the engine delivers, as atomic total forces, (1 + lam(s)) times exactly *)
(* the atomic forces Colvars applied at s (lam = 0: the atoms feel only    *)
(* what Colvars applied), plus arbitrary forces on atoms outside the       *)
(* variable's groups.  Under the one-step-late convention the delivery     *)
(* happens at the next regular step; under the same-step convention the    *)
(* engine re-presents step s with those forces.                            *)
(*                                                                         *)
(* Mechanism (colvar.cpp): ft is refreshed from the delivered forces when  *)
(* the step has a measurement, the Jacobian term kT*jd is added unless     *)
(* hidden together with the subtraction, the previously applied force      *)
(* f_old is subtracted under subtractAppliedForce.  All numbers are        *)
(* integers scaled by D.                                                   *)
(***************************************************************************)
EXTENDS Integers, Sequences, FiniteSets, TLC

CONSTANTS FA,        \* applied variable forces (scaled)
          LAM,       \* engine multipliers lam
          JS,        \* Jacobian terms kT*jd (scaled) of the geometry at a step
          ParamSet, MaxSteps

VARIABLES p, it, started, rel,
          ft, fOld,                   \* mechanism: reported total force, previously applied force
          pend,                       \* engine: [fa, lam, j] of the last computed step, not yet delivered (late)
          hist                        \* history: sequence of [fa, lam, j, delivered]
tvars == <<p, it, started, rel, ft, fOld, pend, hist>>

Late == ~p.sameStep
Sub == p.subtract

\* what the documented behaviour prescribes for a measurement of the forces of a step with applied force a,
\* multiplier l and Jacobian term j
Reported(a, l, j) == (1 + l) * a + j - (IF Sub THEN a ELSE 0)

InitWith(pp) == /\ p = pp /\ it = 0 /\ started = FALSE /\ rel = 0 /\ ft = 0 /\ fOld = 0
                /\ pend = [fa |-> 0, lam |-> 0, j |-> 0, valid |-> FALSE] /\ hist = <<>>
Init == \E pp \in ParamSet : InitWith(pp)

(* One regular calc.  a: force applied at this step; l, j: what the engine will do with this step's forces. *)
Calc(a, l, j, newRel, dev) ==
  LET meas == Late /\ newRel > 0 /\ pend.valid
      raw == IF meas THEN (1 + pend.lam) * pend.fa + pend.j ELSE ft
      \* named deviation "zero-total-subtract": the code skips the subtraction when the measured force is exactly zero
      ft1 == IF meas /\ Sub /\ ~(dev /\ raw = 0) THEN raw - fOld ELSE raw
  IN /\ ft' = ft1
     /\ fOld' = IF Sub THEN a ELSE fOld
     /\ pend' = [fa |-> a, lam |-> l, j |-> j, valid |-> TRUE]
     /\ hist' = Append(hist, [fa |-> a, lam |-> l, j |-> j, measured |-> meas])

First(a, l, j) == /\ ~started /\ started' = TRUE /\ Late /\ it' = it /\ rel' = 0 /\ UNCHANGED p
                  /\ Calc(a, l, j, 0, FALSE)
StepD(a, l, j, dev) == /\ started /\ Late /\ it < MaxSteps /\ it' = it + 1 /\ rel' = rel + 1 /\ UNCHANGED <<p, started>>
                       /\ Calc(a, l, j, rel + 1, dev)
Step(a, l, j) == StepD(a, l, j, FALSE)
\* same-step convention: the engine presents the step again with (1+l) times the forces just applied
\* (plus nothing else): the measurement refers to this very step
Present(a, l, j) == /\ ~Late /\ it < MaxSteps /\ it' = it + 1 /\ started' = TRUE /\ rel' = rel + 1 /\ UNCHANGED p
                    /\ ft' = (1 + l) * a + j
                    /\ fOld' = IF Sub THEN a ELSE fOld
                    /\ pend' = [fa |-> a, lam |-> l, j |-> j, valid |-> TRUE]
                    /\ hist' = Append(hist, [fa |-> a, lam |-> l, j |-> j, measured |-> TRUE])
Next == \E a \in FA, l \in LAM, j \in JS : First(a, l, j) \/ Step(a, l, j) \/ Present(a, l, j)
Spec == Init /\ [][Next]_tvars

(***************************************************************************)
(* Properties over the history                                             *)
(***************************************************************************)
N == Len(hist)
\* late: the total force reported at a measured step is that of the PREVIOUS step's forces
LateOK == (Late /\ N >= 2 /\ hist[N].measured) => ft = Reported(hist[N - 1].fa, hist[N - 1].lam, hist[N - 1].j)
\* same step: it refers to this step and cannot contain Colvars' own force
SameOK == (~Late /\ N >= 1) => ft = (1 + hist[N].lam) * hist[N].fa + hist[N].j
\* inverse of force application: atoms feel exactly what Colvars applied, no Jacobian => the applied force comes back
InverseOK == (Late /\ ~Sub /\ N >= 2 /\ hist[N].measured /\ hist[N - 1].lam = 0 /\ hist[N - 1].j = 0) => ft = hist[N - 1].fa
\* with subtractAppliedForce only the system part remains
SubtractOK == (Late /\ Sub /\ N >= 2 /\ hist[N].measured) => ft = hist[N - 1].lam * hist[N - 1].fa + hist[N - 1].j
=============================================================================
