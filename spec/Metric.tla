------------------------------- MODULE Metric -------------------------------
(***************************************************************************)
(* C18.  Distances, gradients, wrapping and interpolation of variable      *)
(* values on exact sub-lattices of every value type.                       *)
(*                                                                         *)
(* Euclidean types (scalar, 3-vector, generic vector): integer lattices.   *)
(* Periodic scalar: integers, integer period P, wrap centre c.             *)
(* Unit vectors and quaternions: the points w/sqrt(s) with integer w and   *)
(* s = |w|^2 in {1,2} (axes and face diagonals of the cube) resp. {1,2,4}  *)
(* (the 48 elements of the binary octahedral group).  Among those points   *)
(* the cosine of the angle is +-sqrt(r) with r in {0, 1/4, 1/2, 1}, so the *)
(* angle is n*pi/12 with n in {0,3,4,6,8,9,12}: distances and gradients    *)
(* are exact expressions in pi, sqrt(2) and sqrt(3), which the harness     *)
(* evaluates in floating point.                                            *)
(*                                                                         *)
(*   Angle(a, b)   index n of the angle n*pi/12 between a and b            *)
(*   dist2         (n*pi/12)^2 for unit vectors, (min(n,12-n)*pi/12)^2 for *)
(*                 quaternions (q and -q are the same rotation)            *)
(*   gradient      projected on the tangent space at a:                    *)
(*                 -2*theta/sin(theta) * U/(sa*sqrt(sb)), U = sa*wb-(wa.wb)wa *)
(*                 (for quaternions with n > 6: the same with -b)          *)
(***************************************************************************)
EXTENDS Integers, Sequences, FiniteSets, TLC

Dot(a, b) == LET n == Len(a) IN
  IF n = 1 THEN a[1] * b[1]
  ELSE IF n = 2 THEN a[1] * b[1] + a[2] * b[2]
  ELSE IF n = 3 THEN a[1] * b[1] + a[2] * b[2] + a[3] * b[3]
  ELSE a[1] * b[1] + a[2] * b[2] + a[3] * b[3] + a[4] * b[4]
Sub(a, b) == [i \in 1..Len(a) |-> a[i] - b[i]]
Neg(a) == [i \in 1..Len(a) |-> -a[i]]
Scale(k, a) == [i \in 1..Len(a) |-> k * a[i]]
Norm2(a) == Dot(a, a)

---------------------------------------------------------------------------
(* Euclidean types *)
ED2(a, b) == Norm2(Sub(a, b))
EGrad(a, b) == Scale(2, Sub(a, b))

---------------------------------------------------------------------------
(* periodic scalar with period P: shortest image; at exactly half a period  *)
(* the implementation's convention is the image -P/2                        *)
FloorDiv(a, b) == a \div b     \* TLA+ \div is the floor for positive b
\* shift = floor(diff/P + 1/2) = floor((2 diff + P) / (2P))
Image(diff, P) == diff - FloorDiv(2 * diff + P, 2 * P) * P
PD2(x, y, P) == Image(x - y, P) * Image(x - y, P)
PGrad(x, y, P) == 2 * Image(x - y, P)
AtCut(x, y, P) == 2 * Image(x - y, P) = -P
(* wrap: the equivalent value in [c - P/2, c + P/2) *)
Wrap(x, c, P) == x - FloorDiv(2 * (x - c) + P, 2 * P) * P
Equivalent(x, y, P) == (x - y) % P = 0

---------------------------------------------------------------------------
(* angular types: a point is [w |-> integer tuple, s |-> |w|^2] *)
Pt(w) == [w |-> w, s |-> Norm2(w)]
\* cos^2 = (wa.wb)^2 / (sa*sb) as the pair <<num, den>> reduced to den 4
Cos2x4(a, b) == (4 * Dot(a.w, b.w) * Dot(a.w, b.w)) \div (a.s * b.s)
Cos2Exact(a, b) == (4 * Dot(a.w, b.w) * Dot(a.w, b.w)) % (a.s * b.s) = 0
\* angle index n (theta = n*pi/12) from the sign of the dot product and 4*cos^2 in {0,1,2,4}
Angle(a, b) ==
  LET d == Dot(a.w, b.w)
      c == Cos2x4(a, b)
  IN CASE c = 4 -> IF d > 0 THEN 0 ELSE 12
       [] c = 2 -> IF d > 0 THEN 3 ELSE 9
       [] c = 1 -> IF d > 0 THEN 4 ELSE 8
       [] c = 0 -> 6
Sin2x4(a, b) == 4 - Cos2x4(a, b)
\* unit vectors
UAngle(a, b) == Angle(a, b)
\* quaternions: the shorter geodesic; at n = 6 both are equally long (cut locus)
QAngle(a, b) == LET n == Angle(a, b) IN IF n > 6 THEN 12 - n ELSE n
QNear(a, b) == IF Dot(a.w, b.w) < 0 THEN [w |-> Neg(b.w), s |-> b.s] ELSE b
\* tangent direction: U = sa*wb - (wa.wb)*wa ; true direction is U / (sa*sqrt(sb))
TanU(a, b) == Sub(Scale(a.s, b.w), Scale(Dot(a.w, b.w), a.w))

(* interpolation on the sphere: normalised linear combination (1-l) a + l b, l = k/K.         *)
(* It is undefined when the combination vanishes (antipodal points at l = 1/2).               *)
---------------------------------------------------------------------------
(* value sets *)
Range3(S) == {<<x, y, z>> : x \in S, y \in S, z \in S}
Range4(S) == {<<x, y, z, u>> : x \in S, y \in S, z \in S, u \in S}
UnitW == {w \in Range3({-1, 0, 1}) : Norm2(w) \in {1, 2}}
QuatW == {w \in Range4({-1, 0, 1}) : Norm2(w) \in {1, 2, 4}}
Units == {Pt(w) : w \in UnitW}
Quats == {Pt(w) : w \in QuatW}
=============================================================================
