-------------------------------- MODULE MCSmp --------------------------------
EXTENDS Smp, Json
Items_Q == {1, 2, 3, 4}
Threads_Q == {0, 1, 2}
Err_Q == {2, 4}
FairSpec == Spec /\ WF_svars(Next)
\* every complete schedule (assignment + completion order) is emitted for replay
Emit == AllDone => PrintT(<<"BEH", ToJson([assign |-> [i \in 1..Cardinality(Items) |-> assign[i]], order |-> order])>>)
Witness1 == AllDone /\ errBits # {}
NoWitness1 == ~Witness1
=============================================================================
