SPECIFICATION TSpec
CONSTANTS
  VS = {}
  ParamSet = {}
  MaxSteps = 100000
  MaxRuns = 100000
INVARIANTS Progress ItemsOK AcfOK CrossScope
CHECK_DEADLOCK FALSE
