SPECIFICATION MCSpec
CONSTANTS
  VS <- VS_T
  ParamSet <- PS_Q
  MaxSteps = 8
  MaxRuns = 3
  EmitLen = 9
INVARIANTS CountsOK IntervalOK TotalOK Emit
CHECK_DEADLOCK FALSE
