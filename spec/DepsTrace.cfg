SPECIFICATION TSpec
CONSTANTS
  Obj <- ObjT
  KindOf <- KindOfT
  Feat <- FeatT
  FType <- FTypeT
  ReqSelf <- ReqSelfT
  ReqAlt <- ReqAltT
  ReqChild <- ReqChildT
  ReqExcl <- ReqExclT
INVARIANTS Progress Inv1 Inv2 Inv3 Inv4 Inv5
CHECK_DEADLOCK FALSE
