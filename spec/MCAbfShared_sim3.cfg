SPECIFICATION MCSpec
CONSTANTS
  W = 3
  NBins = 2
  Values <- VS_Q
  Freq = 2
  MaxSteps = 7
  MaxRestarts = 2
  EmitLen = 10
INVARIANTS Emit
CHECK_DEADLOCK FALSE
