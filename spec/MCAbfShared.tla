---------------------------- MODULE MCAbfShared ----------------------------
EXTENDS AbfShared, Json
CONSTANTS EmitLen
VS_Q == {-2, 3}
VS_1 == {3}
MCInit == AInit
MCNext == ANext
MCSpec == MCInit /\ [][MCNext]_avars
NoHist == <<g, last, loc, stepno, first, prevbin, prevv, lastshare, phase, pend, msg, bcast, own, snap, merged, quirk, restarts>>
Proj(x) == [b \in Bins |-> x[b]]
Emit == (Len(hist) >= EmitLen /\ hist[Len(hist)].done /\ \A w \in Walkers : phase[w] = "idle") =>
          PrintT(<<"BEH", ToJson([hist |-> hist, g |-> g, loc |-> loc, W |-> W, nb |-> NBins, freq |-> Freq, q |-> quirk,
                                  dg |-> [w \in Walkers |-> Demanded(w)], dl |-> snap])>>)
Witness1 == restarts > 0 /\ \E w \in Walkers : lastshare[w] >= 2 * Freq
NoWitness1 == ~Witness1
Witness2 == \E w \in Walkers : phase[w] = "idle" /\ lastshare[w] > 0 /\ merged[w] # own[w] /\ own[w] # snap[w]
NoWitness2 == ~Witness2
=============================================================================
