------------------------------- MODULE Abf -------------------------------
(***************************************************************************)
(* Adaptive biasing force on one scalar variable (C04).                    *)
(*                                                                         *)
(* Mechanism variables follow colvarbias_abf::update(), colvar::calc() and *)
(* the engine's force-timing convention.  The PROPERTY is stated over the  *)
(* history variable "phys" (what acted on the variable at each physical    *)
(* step) and "delivered" (which steps' forces the engine handed over),     *)
(* which the mechanism never reads.                                        *)
(*                                                                         *)
(* Lattice: the variable is identified with its bin index (the harness     *)
(* places it at the bin centre or on the lower edge); forces are integers  *)
(* scaled by D so that every mean and ramp factor is an exact integer.     *)
(***************************************************************************)
EXTENDS Integers, Sequences, FiniteSets, TLC

CONSTANTS NB,          \* number of bins; grid bins are 0..NB-1; values -1 and NB are outside
          FS,          \* set of system forces (unscaled integers)
          ParamSet,    \* set of parameter records, one is chosen in Init (see the fields below)
          MaxSteps, MaxRuns,
          D            \* common denominator

VARIABLE p             \* the configuration of this behaviour (constant after Init)
SameStep == p.sameStep   \* engine convention: total force of the current step, or one step late
StepZero == p.stepZero   \* stepZeroData (only meaningful with SameStep)
MinS == p.minS           \* ramp parameters
FullS == p.fullS
Periodic == p.periodic   \* one-dimensional periodic variable: zero-mean correction
MaxF == p.maxF           \* cap on the biasing force (unscaled); 0 = no cap
ApplyBias == p.applyBias \* applyBias
Subtract == p.subtract   \* subtractAppliedForce on the variable
OtherF == p.otherF       \* constant force of another bias on the same variable (unscaled)

VARIABLES it, rel, cont, started,       \* engine/module step bookkeeping
          lastX, lastSys,               \* engine: configuration at the last computed step
          prevTotal, havePrev,          \* engine: total force that acted at the last computed step
          samples, gsum,                \* ABF accumulators (gsum scaled by D)
          bin, forceBin, abfF,          \* ABF mechanism state (abfF scaled by D)
          ft, fOld,                     \* variable: total force, previous applied force (scaled)
          phys, delivered, runs,        \* history only
          quirk                         \* history: a known deviation of the code was applicable (see ZeroTotal)

mech == <<it, rel, cont, started, lastX, lastSys, prevTotal, havePrev, samples, gsum, bin, forceBin, abfF, ft, fOld>>
vars == <<mech, phys, delivered, runs, quirk, p>>

Bins == 0..(NB-1)
XS == -1..NB
InGrid(b) == b \in Bins
Abs(n) == IF n < 0 THEN -n ELSE n
\* exact division on the lattice; a remainder means D was chosen too small for the bounds
EDiv(a, b) == IF a % b = 0 THEN a \div b ELSE Assert(FALSE, <<"inexact division", a, b>>)

\* ---- documented ramp: 0 up to MinS, linear to 1 at FullS; times the mean gradient (gsum/count)
RampTimesMean(cnt, g) ==
  IF cnt <= MinS THEN 0
  ELSE IF cnt < FullS THEN EDiv((cnt - MinS) * g, cnt * (FullS - MinS))
  ELSE EDiv(g, cnt)

RECURSIVE SumMeans(_, _, _)
SumMeans(b, smp, gs) == IF b >= NB THEN 0
                        ELSE (IF smp[b] > 0 THEN EDiv(gs[b], smp[b]) ELSE 0) + SumMeans(b + 1, smp, gs)

Cap(f) == IF MaxF > 0 /\ Abs(f) > MaxF * D THEN (IF f > 0 THEN MaxF * D ELSE -(MaxF * D)) ELSE f

BiasForce(b, smp, gs) ==
  IF ApplyBias /\ InGrid(b)
  THEN Cap(RampTimesMean(smp[b], gs[b]) - (IF Periodic THEN EDiv(SumMeans(0, smp, gs), NB) ELSE 0))
  ELSE 0

(* One call of colvarmodule::calc() at value x with system force sys (scaled).
   newRel/newCont: step bookkeeping of this call; deliver: whether the engine hands over the
   previous step's total force (late convention).  *)
\* Named deviation "ZeroTotal" (known finding): the code decides whether a total force was
\* measured by testing it against zero, so a delivered total force that is exactly zero is not
\* corrected for the previously applied force.  dev = TRUE selects the code's behaviour.
ZeroTotalApplies(newRel, deliver) ==
  ~SameStep /\ Subtract /\ newRel > 0 /\ deliver /\ prevTotal = 0 /\ fOld # 0

\* the variable wraps its own value into the period before anybody sees it
Wrap(x) == IF Periodic THEN x % NB ELSE x

Calc(xraw, sys, newRel, newCont, deliver, dev) ==
  LET x == Wrap(xraw)
      \* ---- variable: total force
      ftRaw == IF SameStep THEN sys
               ELSE IF newRel > 0 THEN (IF deliver THEN prevTotal ELSE 0) ELSE ft
      measured == ~SameStep /\ newRel > 0 /\ deliver
      ft1 == IF Subtract /\ measured /\ ~(dev /\ ftRaw = 0) THEN ftRaw - fOld ELSE ftRaw
      \* ---- ABF part I
      fb == IF SameStep THEN x ELSE forceBin
      canAcc == (newRel > 0 /\ ~newCont) \/ (StepZero /\ SameStep)
      doAcc == canAcc /\ (newRel > 0 \/ SameStep) /\ InGrid(fb)
      smpl == IF Subtract \/ SameStep THEN ft1 ELSE ft1 - abfF
      smp2 == IF doAcc THEN [samples EXCEPT ![fb] = @ + 1] ELSE samples
      gs2  == IF doAcc THEN [gsum EXCEPT ![fb] = @ - smpl] ELSE gsum
      \* ---- ABF part II
      newF == BiasForce(x, smp2, gs2)
      f == newF + OtherF * D
  IN /\ samples' = smp2 /\ gsum' = gs2
     /\ bin' = x /\ forceBin' = x /\ abfF' = newF
     /\ ft' = ft1 /\ fOld' = IF Subtract THEN f ELSE fOld
     /\ lastX' = xraw /\ lastSys' = sys
     /\ prevTotal' = sys + f /\ havePrev' = TRUE
     /\ quirk' = (quirk \/ ZeroTotalApplies(newRel, deliver))

Blank == [bin |-> -2, sys |-> 0, abf |-> 0, oth |-> 0]

InitWith(pp) ==
        /\ p = pp
        /\ it = 0 /\ rel = 0 /\ cont = FALSE /\ started = FALSE /\ runs = 1
        /\ lastX = 0 /\ lastSys = 0 /\ prevTotal = 0 /\ havePrev = FALSE
        /\ samples = [b \in Bins |-> 0] /\ gsum = [b \in Bins |-> 0]
        /\ bin = 0 /\ forceBin = 0 /\ abfF = 0 /\ ft = 0 /\ fOld = 0
        /\ phys = [s \in 0..MaxSteps |-> Blank]
        /\ delivered = {} /\ quirk = FALSE

Init == \E pp \in ParamSet : InitWith(pp)

Record(s, x, sys) == phys' = [phys EXCEPT ![s] = [bin |-> Wrap(x), sys |-> sys, abf |-> abfF', oth |-> OtherF * D]]

\* first Calc of the first run
First(x, sys) ==
  /\ ~started /\ started' = TRUE /\ it' = it /\ rel' = 0 /\ cont' = FALSE /\ UNCHANGED runs
  /\ Calc(x, sys, 0, FALSE, FALSE, FALSE)
  /\ Record(it, x, sys)
  /\ delivered' = IF SameStep /\ StepZero THEN {it} ELSE {}

StepD(x, sys, dev) ==
  /\ started /\ it < MaxSteps /\ it' = it + 1 /\ rel' = rel + 1 /\ cont' = FALSE /\ UNCHANGED <<runs, started>>
  /\ Calc(x, sys, rel + 1, FALSE, havePrev, dev)
  /\ Record(it + 1, x, sys)
  /\ delivered' = delivered \cup (IF SameStep THEN {it + 1} ELSE (IF havePrev THEN {it} ELSE {}))

Step(x, sys) == StepD(x, sys, FALSE)

\* a new "run" command in the same process: the engine repeats the current step
\* (same coordinates, same system force) and has no total force to hand over
NewRun ==
  /\ started /\ runs < MaxRuns /\ runs' = runs + 1 /\ it' = it /\ rel' = rel /\ cont' = TRUE /\ UNCHANGED started
  /\ Calc(lastX, lastSys, rel, TRUE, FALSE, FALSE)
  /\ Record(it, lastX, lastSys)
  /\ delivered' = delivered \cup (IF SameStep /\ StepZero THEN {it} ELSE {})    \* see SameStepRepeat below

\* stop, save, fresh process, load, repeat the step: only samples and gsum persist
Restart ==
  /\ started /\ runs < MaxRuns /\ runs' = runs + 1 /\ UNCHANGED <<it, started>>
  /\ LET fresh == [s |-> samples, g |-> gsum] IN
     /\ rel' = 0 /\ cont' = FALSE
     /\ LET x == Wrap(lastX)  sys == lastSys
            ft1 == IF SameStep THEN sys ELSE 0
            fb == x
            doAcc == (StepZero /\ SameStep) /\ InGrid(fb)
            smp2 == IF doAcc THEN [samples EXCEPT ![fb] = @ + 1] ELSE samples
            gs2  == IF doAcc THEN [gsum EXCEPT ![fb] = @ - ft1] ELSE gsum
            newF == BiasForce(x, smp2, gs2)
            f == newF + OtherF * D
        IN /\ samples' = smp2 /\ gsum' = gs2 /\ bin' = x /\ forceBin' = x /\ abfF' = newF
           /\ ft' = ft1 /\ fOld' = IF Subtract THEN f ELSE 0
           /\ prevTotal' = sys + f /\ havePrev' = TRUE /\ UNCHANGED <<lastX, lastSys, quirk>>
  /\ Record(it, lastX, lastSys)
  /\ delivered' = delivered \cup (IF SameStep /\ StepZero THEN {it} ELSE {})

Next == /\ UNCHANGED p
        /\ \/ \E x \in XS, f \in FS : First(x, f * D) \/ Step(x, f * D)
           \/ NewRun \/ Restart
Spec == Init /\ [][Next]_vars

(***************************************************************************)
(* The property, over the history only.                                    *)
(* A delivered step s contributes one sample, attributed to phys[s].bin,   *)
(* equal to the total force that acted at s minus the ABF force applied at *)
(* s: sys(s) + other(s) (other biases' forces are excluded as well when    *)
(* the variable subtracts Colvars' applied force or when the engine's      *)
(* same-step total force cannot contain them).                             *)
(***************************************************************************)
SampleOf(s) == phys[s].sys + (IF Subtract \/ SameStep THEN 0 ELSE phys[s].oth)
RECURSIVE SumS(_)
SumS(S) == IF S = {} THEN 0 ELSE LET s == CHOOSE s \in S : TRUE IN SampleOf(s) + SumS(S \ {s})
SamplesIn(b) == {s \in delivered : phys[s].bin = b}

\* With SameStep and StepZero a repeated step is sampled again by the code (once per Calc at
\* that step): the history counts Calc calls, so the multiplicity is tracked separately.
CountOK == \A b \in Bins : samples[b] >= Cardinality(SamplesIn(b))
CountExact == (~(SameStep /\ StepZero)) => \A b \in Bins : samples[b] = Cardinality(SamplesIn(b))
SumExact == (~(SameStep /\ StepZero)) => \A b \in Bins : gsum[b] = -SumS(SamplesIn(b))
AppliedOK == started => abfF = BiasForce(bin, samples, gsum)
OutsideZero == (started /\ ~InGrid(bin)) => abfF = 0
NoBiasZero == (~ApplyBias) => abfF = 0
CapOK == MaxF > 0 => Abs(abfF) <= MaxF * D
\* late convention: every computed step but the current one has been delivered exactly when a
\* regular step followed it
DeliveredOK == (~SameStep) => \A s \in delivered : s < it

TypeOK == /\ samples \in [Bins -> Nat] /\ bin \in XS /\ forceBin \in XS

=============================================================================
