SPECIFICATION Spec
CONSTANTS
  Obj <- ObjT
  KindOf <- KindOfT
  Feat <- FeatT
  FType <- FTypeT
  ReqSelf <- ReqSelfT
  ReqAlt <- ReqAltT
  ReqChild <- ReqChildT
  ReqExcl <- ReqExclT
  MaxIt = 4
  MaxOps = 6
  AllowAsleepDelete = TRUE
INVARIANTS Inv1 Inv2 Inv3 Inv4 Inv5 NoNegative NoLeak
CHECK_DEADLOCK FALSE
