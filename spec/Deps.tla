------------------------------- MODULE Deps -------------------------------
(***************************************************************************)
(* The feature-dependency engine of Colvars (colvardeps.cpp), transcribed  *)
(* branch by branch.  Every object (variable, component, atom group, bias) *)
(* carries per feature: available, enabled, ref_count, alternate_refs; the *)
(* static tables give, per object kind and feature, the features it        *)
(* requires in the same object (self), one of several (alt), in every      *)
(* child (child), and the mutually exclusive ones (excl).                  *)
(*                                                                         *)
(* The operators below are pure functions on a "world" [fs, ch]: they are  *)
(* used (a) by MCDeps with hand-sized tables, where TLC explores every     *)
(* sequence of operations, (b) by DepsTrace with the REAL tables dumped    *)
(* from the running implementation, where the recorded trace of outermost  *)
(* operations determines the path, and (c) by Engine (awake schedule).     *)
(***************************************************************************)
EXTENDS Integers, Sequences, FiniteSets, TLC

CONSTANTS Obj,        \* set of object ids
          KindOf,     \* [Obj -> kind]
          Feat,       \* [kind -> 0..n-1]           (feature 0 is "active")
          FType,      \* [kind -> [feature -> "dyn" | "user" | "static" | "unset"]]
          ReqSelf,    \* [kind -> [feature -> Seq(feature)]]
          ReqAlt,     \* [kind -> [feature -> Seq(Seq(feature))]]
          ReqChild,   \* [kind -> [feature -> Seq(feature of the child kind)]]
          ReqExcl     \* [kind -> [feature -> Seq(feature)]]

K(o) == KindOf[o]
IsDyn(o, f) == FType[K(o)][f] = "dyn"
SeqToSet(s) == {s[i] : i \in 1..Len(s)}

W(f, c) == [fs |-> f, ch |-> c]
Res(ok, w) == [ok |-> ok, w |-> w]
En(w, o, f) == w.fs[o][f].en
FeatList(o) == [i \in 1..Cardinality(Feat[K(o)]) |-> i - 1]

RECURSIVE Enable(_, _, _, _, _, _)
RECURSIVE EnableSelfList(_, _, _, _, _, _)
RECURSIVE EnableAltSets(_, _, _, _, _, _)
RECURSIVE AltPrint(_, _, _, _)
RECURSIVE EnableChildren(_, _, _, _, _, _, _)
RECURSIVE RestoreChildren(_, _, _)
RECURSIVE Disable(_, _, _)
RECURSIVE DecrRef(_, _, _)
RECURSIVE DecrList(_, _, _)
RECURSIVE DecrChildren(_, _, _, _, _)
RECURSIVE FreeChildren(_, _, _)
RECURSIVE FirstOk(_, _, _, _, _)

\* 2) internal dependencies, in order, stopping at the first failure (earlier ones stay enabled)
EnableSelfList(w, o, lst, dry, err, i) ==
  IF i > Len(lst) THEN Res(TRUE, w)
  ELSE LET r == Enable(w, o, lst[i], dry, FALSE, err)
       IN IF r.ok THEN EnableSelfList(r.w, o, lst, dry, err, i + 1) ELSE r

\* index of the first alternative whose dry run succeeds (0 = none).  A dry run can still change
\* the world when err is set (see step 3 of Enable); thread it.
FirstOk(w, o, set, err, j) ==
  IF j > Len(set) THEN [j |-> 0, w |-> w]
  ELSE LET r == Enable(w, o, set[j], TRUE, FALSE, err)
       IN IF r.ok THEN [j |-> j, w |-> r.w] ELSE FirstOk(r.w, o, set, err, j + 1)

\* "just for printing error output": a real, non-dry call on each alternative with err set
AltPrint(w, o, set, j) ==
  IF j > Len(set) THEN w
  ELSE AltPrint(Enable(w, o, set[j], FALSE, FALSE, TRUE).w, o, set, j + 1)

\* 3) alternate dependencies
EnableAltSets(w, o, f, dry, err, i) ==
  LET sets == ReqAlt[K(o)][f] IN
  IF i > Len(sets) THEN Res(TRUE, w)
  ELSE LET fo == FirstOk(w, o, sets[i], err, 1) IN
       IF fo.j = 0
       THEN Res(FALSE, IF ~dry THEN AltPrint(fo.w, o, sets[i], 1) ELSE fo.w)
       ELSE IF (~dry) \/ err
            THEN LET g == sets[i][fo.j]
                     r == Enable(fo.w, o, g, FALSE, FALSE, err)
                     w2 == [r.w EXCEPT !.fs[o][f].alt = Append(@, g)]
                 IN EnableAltSets(w2, o, f, dry, err, i + 1)
            ELSE EnableAltSets(fo.w, o, f, dry, err, i + 1)

\* 4) dependencies in children: for each required feature, each child in order
EnableChildren(w, o, f, dry, err, i, j) ==
  LET req == ReqChild[K(o)][f]
      ch  == w.ch[o] IN
  IF i > Len(req) THEN Res(TRUE, w)
  ELSE IF j > Len(ch) THEN EnableChildren(w, o, f, dry, err, i + 1, 1)
  ELSE LET r == Enable(w, ch[j], req[i], dry \/ ~w.fs[o][0].en, FALSE, err)
       IN IF r.ok THEN EnableChildren(r.w, o, f, dry, err, i, j + 1) ELSE r

\* restore_children_deps(): re-enable the children requirements of every enabled feature
RestoreChildren(w, o, flist) ==
  IF flist = <<>> THEN w
  ELSE LET f == Head(flist)
           RECURSIVE G(_, _, _)
           G(ww, i, j) ==
             LET req == ReqChild[K(o)][f]  ch == ww.ch[o] IN
             IF i > Len(req) THEN ww
             ELSE IF j > Len(ch) THEN G(ww, i + 1, 1)
             ELSE G(Enable(ww, ch[j], req[i], FALSE, FALSE, FALSE).w, i, j + 1)
           w1 == IF w.fs[o][f].en THEN G(w, 1, 1) ELSE w
       IN RestoreChildren(w1, o, Tail(flist))

Enable(w, o, f, dry, top, err) ==
  LET st == w.fs[o][f] IN
  IF st.en THEN
     IF ~(dry \/ top) THEN Res(TRUE, [w EXCEPT !.fs[o][f].rc = @ + 1])
     ELSE Res(TRUE, w)
  ELSE IF ~st.avail THEN Res(FALSE, w)
  ELSE IF ~top /\ ~IsDyn(o, f) THEN Res(FALSE, w)
  ELSE IF \E g \in SeqToSet(ReqExcl[K(o)][f]) : w.fs[o][g].en THEN Res(FALSE, w)
  ELSE LET r1 == EnableSelfList(w, o, ReqSelf[K(o)][f], dry, err, 1) IN
       IF ~r1.ok THEN r1
       ELSE LET r2 == EnableAltSets(r1.w, o, f, dry, err, 1) IN
       IF ~r2.ok THEN r2
       ELSE LET r3 == EnableChildren(r2.w, o, f, dry, err, 1, 1) IN
       IF ~r3.ok THEN r3
       ELSE IF dry THEN Res(TRUE, r3.w)
       ELSE LET w4 == [r3.w EXCEPT !.fs[o][f].en = TRUE,
                                   !.fs[o][f].rc = IF top THEN @ ELSE 1]
                w5 == IF f = 0 THEN RestoreChildren(w4, o, FeatList(o)) ELSE w4
            IN Res(TRUE, w5)

DecrList(w, o, lst) ==
  IF lst = <<>> THEN w ELSE DecrList(DecrRef(w, o, Head(lst)).w, o, Tail(lst))

DecrChildren(w, o, f, i, j) ==
  LET req == ReqChild[K(o)][f]  ch == w.ch[o] IN
  IF i > Len(req) THEN w
  ELSE IF j > Len(ch) THEN DecrChildren(w, o, f, i + 1, 1)
  ELSE DecrChildren(DecrRef(w, ch[j], req[i]).w, o, f, i, j + 1)

\* free_children_deps(): dereference the children requirements of every enabled feature
FreeChildren(w, o, flist) ==
  IF flist = <<>> THEN w
  ELSE LET f == Head(flist)
           w1 == IF w.fs[o][f].en THEN DecrChildren(w, o, f, 1, 1) ELSE w
       IN FreeChildren(w1, o, Tail(flist))

Disable(w, o, f) ==
  LET st == w.fs[o][f] IN
  IF ~st.en THEN Res(TRUE, w)
  ELSE IF st.rc > 1 THEN Res(FALSE, w)
  ELSE LET w1 == DecrList(w, o, ReqSelf[K(o)][f])
           w2 == DecrList(w1, o, w1.fs[o][f].alt)
           w3 == [w2 EXCEPT !.fs[o][f].alt = <<>>]
           w4 == IF w3.fs[o][0].en THEN DecrChildren(w3, o, f, 1, 1) ELSE w3
           w5 == [w4 EXCEPT !.fs[o][f].en = FALSE, !.fs[o][f].rc = 0]
           w6 == IF f = 0 THEN FreeChildren(w5, o, FeatList(o)) ELSE w5
       IN Res(TRUE, w6)

DecrRef(w, o, f) ==
  LET st == w.fs[o][f] IN
  IF st.rc <= 0 THEN Res(FALSE, w)
  ELSE LET w1 == [w EXCEPT !.fs[o][f].rc = @ - 1] IN
       IF w1.fs[o][f].rc = 0 /\ IsDyn(o, f) THEN Res(TRUE, Disable(w1, o, f).w)
       ELSE Res(TRUE, w1)

Provide(w, o, f, tf) ==
  LET w1 == [w EXCEPT !.fs[o][f].avail = tf] IN IF tf THEN w1 ELSE Disable(w1, o, f).w

AddChild(w, pa, c) ==
  LET w1 == [w EXCEPT !.ch[pa] = Append(@, c)]
      RECURSIVE G(_, _, _)
      G(ww, flist, i) ==
        IF flist = <<>> THEN ww
        ELSE LET f == Head(flist) req == ReqChild[K(pa)][f] IN
             IF ~ww.fs[pa][f].en \/ i > Len(req) THEN G(ww, Tail(flist), 1)
             ELSE G(Enable(ww, c, req[i], FALSE, FALSE, FALSE).w, flist, i + 1)
  IN G(w1, FeatList(pa), 1)

RemoveLast(s, c) ==        \* erase the last occurrence of c
  LET idx == {i \in 1..Len(s) : s[i] = c} IN
  IF idx = {} THEN s
  ELSE LET k == CHOOSE i \in idx : \A j \in idx : j <= i
       IN SubSeq(s, 1, k - 1) \o SubSeq(s, k + 1, Len(s))
RemoveChild(w, pa, c) == [w EXCEPT !.ch[pa] = RemoveLast(@, c)]
RemoveAllChildren(w, pa) == [w EXCEPT !.ch[pa] = <<>>]

(***************************************************************************)
(* Invariants of a world, given the set of live objects.                   *)
(***************************************************************************)
Parents(w, live, o) == {q \in live : o \in SeqToSet(w.ch[q])}

\* I1: an enabled feature has its internal requirements enabled
I1_Self(w, live) == \A o \in live : \A f \in Feat[K(o)] :
  En(w, o, f) => \A i \in 1..Len(ReqSelf[K(o)][f]) : En(w, o, ReqSelf[K(o)][f][i])
\* I2: an enabled feature of an ACTIVE object has its children requirements enabled in every child
I2_Children(w, live) == \A o \in live : \A f \in Feat[K(o)] :
  (En(w, o, f) /\ En(w, o, 0)) =>
     \A i \in 1..Len(ReqChild[K(o)][f]) : \A j \in 1..Len(w.ch[o]) :
        (w.ch[o][j] \in live) => En(w, w.ch[o][j], ReqChild[K(o)][f][i])
\* I3: mutually exclusive features are never enabled together
I3_Excl(w, live) == \A o \in live : \A f \in Feat[K(o)] :
  En(w, o, f) => \A g \in SeqToSet(ReqExcl[K(o)][f]) : ~En(w, o, g)
\* I4: every alternate set of an enabled feature has an enabled member
I4_Alt(w, live) == \A o \in live : \A f \in Feat[K(o)] :
  En(w, o, f) => \A i \in 1..Len(ReqAlt[K(o)][f]) : \E j \in 1..Len(ReqAlt[K(o)][f][i]) : En(w, o, ReqAlt[K(o)][f][i][j])
\* I5: a feature is never switched off while something that needs it remains:
\* the reference count covers the live referrers (self, recorded alternates, active parents)
CountSeq(s, g) == Cardinality({i \in 1..Len(s) : s[i] = g})
RECURSIVE SumFn(_, _)
SumFn(S, fn) == IF S = {} THEN 0 ELSE LET x == CHOOSE x \in S : TRUE IN fn[x] + SumFn(S \ {x}, fn)
Referrers(w, live, o, g) ==
  LET self == [f \in Feat[K(o)] |-> IF En(w, o, f) THEN CountSeq(ReqSelf[K(o)][f], g) + CountSeq(w.fs[o][f].alt, g) ELSE 0]
      par == [q \in Parents(w, live, o) |->
                SumFn(Feat[K(q)], [f \in Feat[K(q)] |-> IF En(w, q, f) /\ En(w, q, 0)
                                                         THEN CountSeq(ReqChild[K(q)][f], g) * CountSeq(w.ch[q], o) ELSE 0])]
  IN SumFn(Feat[K(o)], self) + SumFn(Parents(w, live, o), par)
I5_NoUnderCount(w, live) == \A o \in live : \A g \in Feat[K(o)] :
  En(w, o, g) => w.fs[o][g].rc >= Referrers(w, live, o, g)
I5_NeededStaysOn(w, live) == \A o \in live : \A g \in Feat[K(o)] :
  (Referrers(w, live, o, g) > 0) => En(w, o, g)
=============================================================================
