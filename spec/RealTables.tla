----------------------------- MODULE RealTables -----------------------------
(* The REAL dependency tables and the recorded bias creation / deletion        *)
(* operation lists, loaded from files written by the harness at check time     *)
(* (environment: TABLES, MACROS).  Shared by MCDeps (C13) and Engine (C08).    *)
EXTENDS Deps, Json, IOUtils

Tables == ndJsonDeserialize(IOEnv.TABLES)
Macros == ndJsonDeserialize(IOEnv.MACROS)[1]
  \* [base |-> post-state list of the configured module, var |-> id of the variable,
  \*  create |-> Seq of ops, delete |-> Seq of ops, tsfs |-> Seq of time-step factors]

SeqToSet0(s) == {s[i] : i \in 1..Len(s)}
KindsT == {Tables[i].kind : i \in 1..Len(Tables)}
TableOf(k) == CHOOSE t \in SeqToSet0(Tables) : t.kind = k
FeatT == [k \in KindsT |-> 0..(TableOf(k).n - 1)]
FTypeT == [k \in KindsT |-> [f \in FeatT[k] |-> TableOf(k).feat[f + 1].t]]
ReqSelfT == [k \in KindsT |-> [f \in FeatT[k] |-> TableOf(k).feat[f + 1].self]]
ReqAltT == [k \in KindsT |-> [f \in FeatT[k] |-> TableOf(k).feat[f + 1].alt]]
ReqChildT == [k \in KindsT |-> [f \in FeatT[k] |-> TableOf(k).feat[f + 1].child]]
ReqExclT == [k \in KindsT |-> [f \in FeatT[k] |-> TableOf(k).feat[f + 1].excl]]

BaseIds == {Macros.base[i].id : i \in 1..Len(Macros.base)}
B1 == 101
B2 == 102
BiasIds == {B1, B2}
ObjT == BaseIds \cup BiasIds
BaseOf(o) == CHOOSE q \in SeqToSet0(Macros.base) : q.id = o
KindOfT == [o \in ObjT |-> IF o \in BiasIds THEN Macros.biaskind ELSE BaseOf(o).kind]
V == Macros.var
AWAKE == 1

LoggedFs(q) == [f \in 0..(Len(q.fs) - 1) |-> [avail |-> q.fs[f + 1][1] = 1, en |-> q.fs[f + 1][2] = 1, rc |-> q.fs[f + 1][3], alt |-> q.fs[f + 1][4]]]
FreshBias == [f \in FeatT[Macros.biaskind] |-> [avail |-> Macros.biasavail[f + 1] = 1, en |-> FALSE, rc |-> 0, alt |-> <<>>]]
FreshBiasOf(kind) == [f \in FeatT[Macros.biaskind] |-> [avail |-> Macros.avail[kind][f + 1] = 1, en |-> FALSE, rc |-> 0, alt |-> <<>>]]
BaseFs == [o \in ObjT |-> IF o \in BiasIds THEN FreshBias ELSE LoggedFs(BaseOf(o))]
BaseCh == [o \in ObjT |-> IF o \in BiasIds THEN <<>> ELSE BaseOf(o).ch]

\* apply one recorded primitive operation with the bias object substituted
ApplyOp(w, e, b) ==
  CASE e.op = "enable"  -> Enable(w, b, e.a, e.b = 1, e.c = 1, FALSE).w
    [] e.op = "disable" -> Disable(w, b, e.a).w
    [] e.op = "provide" -> Provide(w, b, e.a, e.b = 1)
    [] e.op = "add_child" -> AddChild(w, b, V)
    [] e.op = "free_children_deps" -> FreeChildren(w, b, FeatList(b))
    [] e.op = "remove_all_children" -> RemoveAllChildren(w, b)
    [] e.op = "del" -> [w EXCEPT !.ch[b] = <<>>]
    [] OTHER -> w
RECURSIVE ApplyOps(_, _, _, _)
ApplyOps(w, ops, i, b) == IF i > Len(ops) THEN w ELSE ApplyOps(ApplyOp(w, ops[i], b), ops, i + 1, b)

=============================================================================
