----------------------------- MODULE MemStream -----------------------------
(***************************************************************************)
(* Cursor arithmetic of the binary state stream (cvm::memory_stream, C11). *)
(* An item is a trivially copyable object of 1, 4 or 8 bytes, or a         *)
(* length-prefixed sequence (string, vector) of n elements of size s: an   *)
(* 8-byte count followed by n*s bytes.  Reading checks the bytes that      *)
(* remain before every copy; a failed read leaves the stream in a failed   *)
(* state and nothing beyond the buffer is ever touched.                    *)
(***************************************************************************)
EXTENDS Integers, Sequences, FiniteSets, TLC

Kinds == {"u8", "i32", "i64", "f64", "str", "vu8", "vi32", "vi64", "vf64", "v1d"}
IsSeq(k) == k \in {"str", "vu8", "vi32", "vi64", "vf64", "v1d"}
ElemSize(k) == CASE k \in {"u8", "str", "vu8"} -> 1 [] k \in {"i32", "vi32"} -> 4 [] OTHER -> 8
\* item = [k |-> kind, n |-> number of elements (1 for objects)]
Bytes(it) == IF IsSeq(it.k) THEN 8 + it.n * ElemSize(it.k) ELSE ElemSize(it.k)

RECURSIVE Offsets(_, _, _)
\* sequence of end offsets after writing each item
Offsets(items, i, acc) == IF i > Len(items) THEN <<>>
                          ELSE <<acc + Bytes(items[i])>> \o Offsets(items, i + 1, acc + Bytes(items[i]))
Total(items) == IF items = <<>> THEN 0 ELSE Offsets(items, 1, 0)[Len(items)]
StartOf(items, i) == IF i = 1 THEN 0 ELSE Offsets(items, 1, 0)[i - 1]

(* Reading item i from a buffer of buflen bytes at position pos, where the stored element count
   is cnt (cnt = items[i].n unless the prefix was corrupted; -1 stands for a huge count).
   Result: [ok, pos].  *)
ReadItem(it, pos, buflen, cnt) ==
  IF ~IsSeq(it.k)
  THEN IF ElemSize(it.k) <= buflen - pos THEN [ok |-> TRUE, pos |-> pos + ElemSize(it.k)] ELSE [ok |-> FALSE, pos |-> pos]
  ELSE IF 8 > buflen - pos THEN [ok |-> FALSE, pos |-> pos]
       ELSE LET p1 == pos + 8 IN
            IF cnt >= 0 /\ cnt * ElemSize(it.k) <= buflen - p1
            THEN [ok |-> TRUE, pos |-> p1 + cnt * ElemSize(it.k)]
            ELSE [ok |-> FALSE, pos |-> p1]

RECURSIVE ReadAll(_, _, _, _, _, _)
\* reads until the first failure; pj/pc: index of the item whose prefix is corrupted and its new count (0 = none).
\* After a successfully read corrupted item the following bytes are misaligned: reading stops being predictable,
\* so the expectation ends there ("free" = TRUE).
ReadAll(items, i, pos, buflen, pj, pc) ==
  IF i > Len(items) THEN <<>>
  ELSE LET cnt == IF i = pj THEN pc ELSE items[i].n
           r == ReadItem(items[i], pos, buflen, cnt) IN
       IF ~r.ok THEN << [ok |-> FALSE, pos |-> r.pos, free |-> FALSE] >>
       ELSE IF i = pj /\ pc # items[i].n THEN << [ok |-> TRUE, pos |-> r.pos, free |-> TRUE] >>
       ELSE << [ok |-> TRUE, pos |-> r.pos, free |-> FALSE] >> \o ReadAll(items, i + 1, r.pos, buflen, pj, pc)

\* the properties of the arithmetic itself
RoundTrip(items) == LET rs == ReadAll(items, 1, 0, Total(items), 0, 0) IN
                    /\ Len(rs) = Len(items) /\ \A i \in 1..Len(rs) : rs[i].ok /\ rs[i].pos = Offsets(items, 1, 0)[i]
NeverPastEnd(items, buflen, pj, pc) == \A r \in {ReadAll(items, 1, 0, buflen, pj, pc)[i] : i \in 1..Len(ReadAll(items, 1, 0, buflen, pj, pc))} : r.pos <= buflen
\* a buffer cut strictly inside item i fails exactly at item i
CutFails(items, k) == LET rs == ReadAll(items, 1, 0, k, 0, 0) IN
                      (k < Total(items)) => (rs # <<>> /\ ~rs[Len(rs)].ok /\ StartOf(items, Len(rs)) <= k /\ k < Offsets(items, 1, 0)[Len(rs)])
=============================================================================
