---------------------------- MODULE MCMetaExpand ----------------------------
EXTENDS MetaExpand, Json
CONSTANTS EmitLen
VARIABLE hist
PS_E == { [wide |-> TRUE, hillFreq |-> hf, gridFreq |-> hf, useGrids |-> TRUE, keepHills |-> FALSE, hardLower |-> FALSE,
           periodic |-> FALSE, expand |-> TRUE] : hf \in {1, 2} }
XLoDef == -7
Rec(a, x) == [a |-> a, x |-> x, it |-> it', e |-> energy', f |-> force', ee |-> ExpE(1)', ef |-> ExpF(1)', q |-> {}, nh |-> 0,
              lo |-> gLo', hi |-> gHi']
Witness1 == "lower" \in grown /\ energy > 0 /\ Len(deposited) >= 2
NoWitness1 == ~Witness1
Witness2 == "upper" \in grown /\ "lower" \in grown /\ runs > 1 /\ energy > 0
NoWitness2 == ~Witness2
MCInit == Init /\ hist = <<>>
MCNext == /\ Len(hist) < EmitLen
          /\ \/ \E P \in XLo..XHi : P % 2 = 1 /\ First(P) /\ hist' = Append(hist, Rec("First", P))
             \/ \E P \in XLo..XHi : P % 2 = 1 /\ Step(P) /\ hist' = Append(hist, Rec("Step", P))
             \/ NewRun /\ hist' = Append(hist, Rec("NewRun", lastX))
             \/ Restart /\ hist' = Append(hist, Rec("Restart", lastX))
MCSpec == MCInit /\ [][MCNext]_<<mevars, hist>>
View == mevars
Emit == (Len(hist) = EmitLen) => PrintT(<<"BEH", ToJson([p |-> p, nb |-> NB, acts |-> hist])>>)
=============================================================================
