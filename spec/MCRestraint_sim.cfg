SPECIFICATION MCSpec
CONSTANTS
  XS <- XS_Q
  ParamSet <- PS_Quick
  MaxSteps = 11
  MaxRuns = 3
  EmitLen = 12
INVARIANTS Emit ScheduleOK EnergyOK ClosedForm WorkOK TIOK
CHECK_DEADLOCK FALSE
