----------------------------- MODULE MetaExpand -----------------------------
(***************************************************************************)
(* Metadynamics with expandBoundaries (C05: "grid expansion changes none   *)
(* of this").  One scalar variable, wide dyadic hills on bin centres (see  *)
(* Meta.tla for the lattice: positions in half bins, odd = bin centres,    *)
(* G(d) = 2^-((d/2)^2) scaled by 2^16, cut off beyond 4 bins), grids on,   *)
(* every hill tabulated at the step it is deposited.                       *)
(*                                                                         *)
(* Mechanism (colvarbias_meta::update): update_grid_params() first grows   *)
(* the grids so that the current bin keeps min_buffer = 3*floor(hillWidth) *)
(* + 1 = 4 bins to either boundary (the tabulated values move with their   *)
(* bins: map_grid), then the hill is deposited and projected on the bins   *)
(* of the (new) grid, then energy and force are read at the current bin.   *)
(* The grids are functions of ABSOLUTE bin numbers; gLo..gHi is the range  *)
(* the grids currently cover.  A restart stores the grown grids with their *)
(* boundaries and reads them into a module configured with the ORIGINAL    *)
(* boundaries.                                                             *)
(*                                                                         *)
(* Property, over the history "deposited" only: energy and force are those *)
(* of the sum of all deposited hills at the centre of the current bin -    *)
(* exactly, because every hill is deposited with 4 bins of grid on either  *)
(* side, which is as far as its tabulated tail reaches.                    *)
(***************************************************************************)
EXTENDS Integers, Sequences, FiniteSets, TLC
CONSTANTS NB, XLo, XHi, ParamSet, MaxSteps, MaxRuns
VARIABLES p, it, rel, started, lastX, runs, gLo, gHi, gE, gF, energy, force, deposited, grown
mevars == <<p, it, rel, started, lastX, runs, gLo, gHi, gE, gF, energy, force, deposited, grown>>

HillFreq == p.hillFreq
MB == 4
BinOf(P) == IF P >= 0 THEN P \div 2 ELSE -((1 - P) \div 2)
Centre(b) == 2 * b + 1
Abs(n) == IF n < 0 THEN -n ELSE n
GN(d) == LET a == Abs(d) IN CASE a = 0 -> 65536 [] a = 1 -> 32768 [] a = 2 -> 4096 [] a = 3 -> 128 [] a = 4 -> 1 [] OTHER -> 0
G(d) == IF d % 2 = 0 THEN GN(d \div 2) ELSE Assert(FALSE, <<"wide hills on even distances only", d>>)
AB == (BinOf(XLo) - MB - 1)..(BinOf(XHi) + MB + 1)
Min(a, b) == IF a < b THEN a ELSE b
Max(a, b) == IF a > b THEN a ELSE b

Update(P, newIt, newRel, newCont) ==
  LET b == BinOf(P)
      lo1 == Min(gLo, b - MB)
      hi1 == Max(gHi, b + MB)
      dep == (newIt % HillFreq = 0) /\ newRel > 0 /\ ~newCont
      gE1 == IF dep THEN [bb \in AB |-> IF bb \in lo1..hi1 THEN gE[bb] + G(Centre(bb) - P) ELSE gE[bb]] ELSE gE
      gF1 == IF dep THEN [bb \in AB |-> IF bb \in lo1..hi1 THEN gF[bb] + (Centre(bb) - P) * G(Centre(bb) - P) ELSE gF[bb]] ELSE gF
  IN /\ gLo' = lo1 /\ gHi' = hi1 /\ gE' = gE1 /\ gF' = gF1
     /\ energy' = gE1[b] /\ force' = gF1[b]
     /\ deposited' = IF dep THEN Append(deposited, P) ELSE deposited
     /\ grown' = (grown \cup (IF lo1 < gLo THEN {"lower"} ELSE {}) \cup (IF hi1 > gHi THEN {"upper"} ELSE {}))
     /\ lastX' = P

InitWith(pp) == /\ p = pp /\ it = 0 /\ rel = 0 /\ started = FALSE /\ lastX = 1 /\ runs = 1
                /\ gLo = 0 /\ gHi = NB - 1 /\ gE = [b \in AB |-> 0] /\ gF = [b \in AB |-> 0]
                /\ energy = 0 /\ force = 0 /\ deposited = <<>> /\ grown = {}
Init == \E pp \in ParamSet : InitWith(pp)
First(P) == /\ ~started /\ started' = TRUE /\ rel' = 0 /\ UNCHANGED <<it, runs, p>> /\ Update(P, it, 0, FALSE)
Step(P) == /\ started /\ it < MaxSteps /\ it' = it + 1 /\ rel' = rel + 1 /\ UNCHANGED <<started, runs, p>> /\ Update(P, it + 1, rel + 1, FALSE)
NewRun == /\ started /\ runs < MaxRuns /\ runs' = runs + 1 /\ UNCHANGED <<it, rel, started, p>> /\ Update(lastX, it, rel, TRUE)
\* stop, save (grids with their current boundaries), fresh module configured with the original boundaries, load, repeat the step
Restart == /\ started /\ runs < MaxRuns /\ runs' = runs + 1 /\ rel' = 0 /\ UNCHANGED <<it, started, p>> /\ Update(lastX, it, 0, FALSE)
Next == (\E P \in XLo..XHi : P % 2 = 1 /\ (First(P) \/ Step(P))) \/ NewRun \/ Restart
Spec == Init /\ [][Next]_mevars

b0 == BinOf(lastX)
RECURSIVE ExpE(_)
ExpE(i) == IF i > Len(deposited) THEN 0 ELSE G(Centre(b0) - deposited[i]) + ExpE(i + 1)
RECURSIVE ExpF(_)
ExpF(i) == IF i > Len(deposited) THEN 0 ELSE (Centre(b0) - deposited[i]) * G(Centre(b0) - deposited[i]) + ExpF(i + 1)
EnergyIsSumOfHills == started => (energy = ExpE(1) /\ force = ExpF(1))
\* the current bin always keeps its buffer, so no hill is ever deposited closer than MB bins to a boundary
BufferOK == started => (b0 - gLo >= MB /\ gHi - b0 >= MB)
=============================================================================
