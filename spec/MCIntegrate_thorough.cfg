SPECIFICATION MCSpec
CONSTANTS
  ParamSet <- PS_T
  Values <- VS_Q
  MaxArrivals = 3
  MaxCount = 4
  EmitLen = 99
INVARIANTS IncrementalEqualsBatch Solvable AllExact LapSymmetric LapKillsConstants
\* vacuity: on
CHECK_DEADLOCK FALSE
