------------------------------- MODULE Walls -------------------------------
(***************************************************************************)
(* Closed forms of the fixed restraints on a scalar variable (C06):        *)
(* harmonic (shortest-image difference for a periodic variable), one- and  *)
(* two-sided harmonic walls (closest-wall rule for a periodic variable),   *)
(* linear.  Values are integers; energies are scaled by 2*W*W, forces by   *)
(* W*W (W = width).                                                        *)
(***************************************************************************)
EXTENDS Integers, FiniteSets, TLC

CONSTANTS Period      \* period of the periodic variable (even)

Abs(n) == IF n < 0 THEN -n ELSE n
Img(d) == ((d + Period \div 2) % Period) - Period \div 2          \* shortest image in [-P/2, P/2)
Diff(c, x) == IF c.periodic THEN Img(x - c.c) ELSE x - c.c

\* c = [kind, periodic, w, k, c (centre), lo, hi, hasLo, hasHi, kLo, kHi]
Dist(c, x) ==   \* signed distance to the applicable wall (0 between the walls)
  IF c.periodic
  THEN LET dl == Img(x - c.lo)  du == Img(x - c.hi) IN
       IF Abs(dl) < Abs(du) THEN (IF dl < 0 THEN dl ELSE 0) ELSE (IF du > 0 THEN du ELSE 0)
  ELSE IF c.hasLo /\ x < c.lo THEN x - c.lo
       ELSE IF c.hasHi /\ x > c.hi THEN x - c.hi ELSE 0

Energy2(c, x) ==   \* 2*W*W*U
  CASE c.kind = "harmonic" -> c.k * Diff(c, x) * Diff(c, x)
    [] c.kind = "walls" -> LET d == Dist(c, x) IN c.k * (IF d > 0 THEN c.kHi ELSE c.kLo) * d * d
    [] c.kind = "linear" -> 2 * c.w * c.k * (x - c.c)
ForceWW(c, x) ==   \* W*W*F
  CASE c.kind = "harmonic" -> -(c.k * Diff(c, x))
    [] c.kind = "walls" -> LET d == Dist(c, x) IN -(c.k * (IF d > 0 THEN c.kHi ELSE c.kLo) * d)
    [] c.kind = "linear" -> -(c.w * c.k)
=============================================================================
