SPECIFICATION MCSpec
CONSTANTS
  MaxWrites = 5
  MaxCrashes = 3
INVARIANTS NoCrashOK FirstCrashOK Wit
POSTCONDITION WitPost
CHECK_DEADLOCK FALSE
