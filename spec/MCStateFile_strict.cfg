SPECIFICATION MCSpec
CONSTANTS
  MaxWrites = 5
  MaxCrashes = 3
INVARIANTS NoCrashOK FirstCrashOK
\* vacuity: on
CHECK_DEADLOCK FALSE
