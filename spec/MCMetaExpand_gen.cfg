SPECIFICATION MCSpec
CONSTANTS
  NB = 6
  XLo <- XLoDef
  XHi = 17
  ParamSet <- PS_E
  MaxSteps = 5
  MaxRuns = 2
  EmitLen = 4
VIEW View
INVARIANTS Emit
CHECK_DEADLOCK FALSE
