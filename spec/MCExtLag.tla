------------------------------ MODULE MCExtLag ------------------------------
EXTENDS ExtLag, Json
CONSTANTS EmitLen
VARIABLE acts
PX(lg, rl, rh, lo, hi, sub) == [langevin |-> lg, reflLo |-> rl, reflHi |-> rh, lower |-> lo, upper |-> hi, subtract |-> sub, sc |-> IF lg THEN 1000000 ELSE 64]
PS_Q == { PX(FALSE, FALSE, FALSE, 0, 0, FALSE), PX(FALSE, FALSE, FALSE, 0, 0, TRUE), PX(FALSE, TRUE, FALSE, -1, 0, FALSE),
          PX(FALSE, FALSE, TRUE, 0, 3, FALSE), PX(TRUE, FALSE, FALSE, 0, 0, FALSE), PX(TRUE, TRUE, TRUE, -2, 2, FALSE) }
XS_Q == {-2, 0, 3}
FB_Q == {0, 2}
RS_Q == {-1, 0, 1}
Rec1(a, i) == [a |-> a, x |-> i.x, fb |-> i.fb, r |-> i.r, it |-> it', xr |-> xRep', vr |-> vRep', fat |-> fAtoms', ep2 |-> ePot2', ek8 |-> eKin8', ft |-> ftRep', xe |-> xe', ve |-> ve', err |-> errRep', edge |-> edgeRep', q |-> quirk']
\* vacuity witnesses: the check searches a state satisfying each Witness<i> (a violation of NoWitness<i>)
Witness1 == runs > 1 /\ ve # 0 /\ rel > 0
NoWitness1 == ~Witness1
Witness2 == started /\ (p.reflLo \/ p.reflHi) /\ (xe = Lo \/ xe = Hi \/ TRUE) /\ ve # 0
NoWitness2 == ~Witness2
Witness3 == started /\ FreeOscillation /\ N >= 3 /\ ve # 0
NoWitness3 == ~Witness3
MCInit == Init /\ acts = <<>>
MCNext == /\ Len(acts) < EmitLen
          /\ \/ \E i \in Ins : First(i) /\ acts' = Append(acts, Rec1("First", i))
             \/ \E i \in Ins : Step(i) /\ acts' = Append(acts, Rec1("Step", i))
             \/ NewRun /\ acts' = Append(acts, Rec1("NewRun", lastIn))
             \/ Restart /\ acts' = Append(acts, Rec1("Restart", lastIn))
MCSpec == MCInit /\ [][MCNext]_<<xvars, acts>>
View == xvars
Emit == (Len(acts) = EmitLen) => PrintT(<<"BEH", ToJson([p |-> p, sc |-> SC, acts |-> acts])>>)
=============================================================================
