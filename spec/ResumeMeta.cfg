SPECIFICATION PSpecW
CONSTANTS
  NB = 5
  XLo <- XLoR
  XHi = 12
  ParamSet <- PS_R
  MaxSteps = 4
  MaxRuns = 2
VIEW PView
INVARIANTS Indistinguishable SameDeposits
\* vacuity: on
CHECK_DEADLOCK FALSE
