SPECIFICATION MCSpec
CONSTANTS
  MaxLen = 4
  MaxEdits = 1
  Alphabet <- A_Q
  EditAlphabet <- EA_Q
  EditBases <- EB_Q
INVARIANTS TypeOK LayoutFree MutRejected UnbalancedRejected AcceptBalanced Emit
\* vacuity: on
CHECK_DEADLOCK FALSE
