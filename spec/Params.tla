------------------------------- MODULE Params -------------------------------
(***************************************************************************)
(* C10.  Invalid parameter values and roll-back of rejected definitions.   *)
(*                                                                         *)
(* The table of object types, their numeric/structural keywords and the    *)
(* boundary values each keyword is crossed with is read from the file      *)
(* named by the environment variable PTABLE (one JSON record per line:     *)
(* [t |-> type, k |-> keyword, vals |-> <<values>>]); it is generated from *)
(* the templates the harness renders, so TLC and the renderer agree on it. *)
(*                                                                         *)
(* The module state is the set of object names the module holds.           *)
(*   Attempt: a definition with one or two keywords set to boundary values *)
(*            is submitted; the implementation either accepts it or        *)
(*            rejects it with an error; either way every object that       *)
(*            existed before is still there, any new object is owned by    *)
(*            the definition, and the module still works;                  *)
(*   Follow:  a valid definition submitted afterwards is always accepted;  *)
(*   Step:    the objects present are exactly `objs' and every object that *)
(*            also exists in a module that never saw the rejected          *)
(*            definitions behaves exactly as it does there (the harness    *)
(*            runs that second module and logs the names whose observables *)
(*            differ: must be none).                                       *)
(* The process never dies: no action consumes a "Died" event.              *)
(***************************************************************************)
EXTENDS Naturals, Sequences, FiniteSets, TLC, Json, IOUtils

Table == ndJsonDeserialize(IOEnv.PTABLE)
Rows == {Table[i] : i \in 1..Len(Table)}
AllSettings == UNION {{[t |-> r.t, k |-> r.k, v |-> r.vals[j]] : j \in 1..Len(r.vals)} : r \in Rows}
Types == {r.t : r \in Rows}

VARIABLES objs, usable, hist
pvars == <<objs, usable, hist>>

BaseObjs == {"x", "hx"}
FollowObjs == {"y", "hy"}

PInit == objs = BaseObjs /\ usable = TRUE /\ hist = <<>>

Accepted(new) == /\ usable /\ new \cap objs = {} /\ objs' = objs \cup new /\ UNCHANGED usable
(* A rejected definition may leave behind the objects of it that were complete before the error (a variable whose   *)
(* automatically generated bias is refused, the first of two blocks): nothing that existed before is lost or changed. *)
Rejected(new) == /\ usable /\ new \cap objs = {} /\ objs' = objs \cup new /\ UNCHANGED usable
Follow == usable /\ objs' = objs \cup FollowObjs /\ UNCHANGED usable
StepOK(seen, differing) == usable /\ seen = objs /\ differing = {} /\ UNCHANGED <<objs, usable>>

=============================================================================
