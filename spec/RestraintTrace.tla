--------------------------- MODULE RestraintTrace ---------------------------
(* Seeded random executions of the real harmonic restraint (steps, new runs in the same process, stop/save/restart)        *)
(* validated against Restraint.tla: each event is one action of the specification and carries what the real code showed   *)
(* after it - energy (x 2 KS), force on the variable (x KS), centre, force constant (x KS), stage, accumulated work        *)
(* (x 2 KS) - all of which must equal the mechanism's.  Every invariant of Restraint.tla is evaluated on every state.      *)
EXTENDS Restraint, Json, IOUtils
Trace == ndJsonDeserialize(IOEnv.TRACE)
VARIABLE l
tvars == <<vars, l>>
Ev == Trace[l]
Obs == /\ energy' = Ev.e /\ force' = Ev.f /\ it' = Ev.it
       /\ (Ev.hc => cen' = Ev.cen) /\ (Ev.hk => k' = Ev.k)
       /\ (Ev.hs => stage' = Ev.stage) /\ (Ev.hw => work' = Ev.work)
TReset == /\ l <= Len(Trace) /\ Ev.a = "Reset" /\ l' = l + 1
          /\ p' = Ev.p /\ it' = 0 /\ rel' = 0 /\ cont' = FALSE /\ started' = FALSE /\ lastX' = 0 /\ runs' = 1
          /\ cen' = Ev.p.c0 /\ k' = Ev.p.k0 * (Ev.p.n * Ev.p.n * Ev.p.ns) /\ stage' = 0 /\ cincr' = 0 /\ kincr' = 0 /\ work' = 0 /\ fe' = 0
          /\ energy' = 0 /\ force' = 0 /\ tiout' = <<>>
          /\ phys' = [s \in 0..MaxSteps |-> 0] /\ quirk' = {}
Is(a) == l <= Len(Trace) /\ Ev.a = a /\ l' = l + 1
TFirst == Is("First") /\ First(Ev.x) /\ Obs
TStep == Is("Step") /\ Step(Ev.x) /\ Obs
TNewRun == Is("NewRun") /\ NewRun /\ Obs
TRestart == Is("Restart") /\ Restart /\ Obs
TNext == TReset \/ TFirst \/ TStep \/ TNewRun \/ TRestart
TInit == InitWith(Trace[1].p) /\ l = 2
TSpec == TInit /\ [][TNext]_tvars
Progress == PrintT(<<"MAXL", l>>) /\ (quirk # {} => PrintT(<<"QUIRK", quirk>>))
=============================================================================
