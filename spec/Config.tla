------------------------------ MODULE Config ------------------------------
(***************************************************************************)
(* C09.  The configuration language at the level of tokens.                *)
(*                                                                         *)
(* A configuration is a sequence of tokens: words, "{", "}", "nl" (end of  *)
(* line) and "#c" (a comment running to the end of the line).  The module  *)
(* defines                                                                 *)
(*   - the documented grammar for five contexts of the real keyword        *)
(*     registry (module level, colvar, distanceZ, atom group, harmonic):   *)
(*     which keyword is valid where and what type of value it takes;       *)
(*   - the reference reading of a token sequence (comments dropped,        *)
(*     logical lines split at depth 0, the first token of a line is the    *)
(*     keyword, the value runs to the end of the line or to the matching   *)
(*     brace, brace-delimited lists may be split over lines);              *)
(*   - the verdict the property prescribes:                                *)
(*        "R"   must be rejected: unmatched brace, a keyword that is not   *)
(*              valid in its context (misspelt or misplaced), a keyword    *)
(*              that needs a value and has none, text where a number is    *)
(*              required;                                                  *)
(*        "OK"  a valid configuration: must be accepted and define exactly *)
(*              Model(toks);                                               *)
(*        "Any" everything else (a line whose shape is outside the         *)
(*              documented syntax, or a semantic error such as a missing   *)
(*              required keyword or a dangling variable name): must only   *)
(*              terminate with accept or error;                            *)
(*   - layouts (free aspects of the syntax) and keyword-level mutations.   *)
(* The character-level free aspects (letter case, spaces/tabs, CRLF) do    *)
(* not exist at token level; the renderer of the conformance harness       *)
(* applies them from the layout record chosen here.                        *)
(***************************************************************************)
EXTENDS Naturals, Sequences, FiniteSets, TLC

NL == "nl"
CM == "#c"
Braces == {"{", "}"}

IntToks  == {"2", "3"}
RealToks == {"0.5"}
VecToks  == {"(0,0,1)"}
BoolTrue == {"on", "yes", "true"}
BoolFalse == {"off", "no", "false"}
TextToks == {"abc", "0.5abc"}

(* keyword -> type, per context *)
KT == [
  top |-> [colvarsTrajFrequency |-> "int", colvarsRestartFrequency |-> "int",
           colvar |-> "block", harmonic |-> "block"],
  colvar |-> [name |-> "word", width |-> "real", distanceZ |-> "block",
              lowerBoundary |-> "real", upperBoundary |-> "real", outputValue |-> "bool"],
  distanceZ |-> [name |-> "word", main |-> "block", ref |-> "block", axis |-> "vec",
                 oneSiteTotalForce |-> "bool", componentCoeff |-> "real"],
  main |-> [atomNumbers |-> "ints", dummyAtom |-> "vec"],
  ref |-> [atomNumbers |-> "ints", dummyAtom |-> "vec"],
  harmonic |-> [name |-> "word", colvars |-> "words", centers |-> "reals",
                forceConstant |-> "real", outputEnergy |-> "bool"] ]

Ctxs == DOMAIN KT
AllKw == UNION {DOMAIN KT[c] : c \in Ctxs}

---------------------------------------------------------------------------
(* Reading *)

RECURSIVE StripC(_, _, _, _)
StripC(t, i, inc, acc) ==
  IF i > Len(t) THEN acc
  ELSE IF t[i] = NL THEN StripC(t, i + 1, FALSE, Append(acc, NL))
  ELSE IF inc \/ t[i] = CM THEN StripC(t, i + 1, TRUE, acc)
  ELSE StripC(t, i + 1, FALSE, Append(acc, t[i]))
StripComments(t) == StripC(t, 1, FALSE, <<>>)

RECURSIVE Bal(_, _, _)
Bal(t, i, d) ==
  IF i > Len(t) THEN d = 0
  ELSE IF t[i] = "{" THEN Bal(t, i + 1, d + 1)
  ELSE IF t[i] = "}" THEN (d > 0 /\ Bal(t, i + 1, d - 1))
  ELSE Bal(t, i + 1, d)
Balanced(t) == Bal(StripComments(t), 1, 0)

(* total brace count only: what a reader that merely counts would test *)
RECURSIVE Cnt(_, _, _)
Cnt(t, i, d) == IF i > Len(t) THEN d
                ELSE Cnt(t, i + 1, IF t[i] = "{" THEN d + 1 ELSE IF t[i] = "}" THEN d - 1 ELSE d)

RECURSIVE Split(_, _, _, _, _)
Split(t, i, d, cur, acc) ==
  IF i > Len(t) THEN (IF cur = <<>> THEN acc ELSE Append(acc, cur))
  ELSE IF t[i] = NL /\ d = 0
       THEN Split(t, i + 1, d, <<>>, IF cur = <<>> THEN acc ELSE Append(acc, cur))
       ELSE Split(t, i + 1, IF t[i] = "{" THEN d + 1 ELSE IF t[i] = "}" THEN d - 1 ELSE d,
                  Append(cur, t[i]), acc)
Lines(t) == Split(t, 1, 0, <<>>, <<>>)

HasBrace(s) == \E i \in 1..Len(s) : s[i] \in Braces
NoNL(s) == SelectSeq(s, LAMBDA x : x # NL)

(* the first token is "{" and its partner is the last token *)
RECURSIVE Whole(_, _, _)
Whole(s, i, d) ==
  IF i = Len(s) THEN s[i] = "}" /\ d = 1
  ELSE LET d2 == IF s[i] = "{" THEN d + 1 ELSE IF s[i] = "}" THEN d - 1 ELSE d
       IN  d2 > 0 /\ Whole(s, i + 1, d2)
Braced(s) == Len(s) >= 2 /\ s[1] = "{" /\ Whole(s, 2, 1)
Inner(s) == SubSeq(s, 2, Len(s) - 1)

Numeric(x) == x \in IntToks \cup RealToks

(* "OK", "novalue" (keyword needs a value and has none), "text" (text     *)
(* where a number is required), "other"                                    *)
ValStatus(ty, v) ==
  CASE ty = "bool"  -> IF v = <<>> \/ (Len(v) = 1 /\ v[1] \in BoolTrue \cup BoolFalse) THEN "OK" ELSE "other"
    [] v = <<>>     -> "novalue"
    [] ty = "int"   -> IF Len(v) # 1 THEN "other" ELSE IF v[1] \in IntToks THEN "OK"
                       ELSE IF v[1] \in TextToks \/ v[1] \in AllKw THEN "text" ELSE "other"
    [] ty = "real"  -> IF Len(v) # 1 THEN "other" ELSE IF Numeric(v[1]) THEN "OK"
                       ELSE IF v[1] \in TextToks \/ v[1] \in AllKw THEN "text" ELSE "other"
    [] ty = "ints"  -> IF \A i \in 1..Len(v) : v[i] \in IntToks THEN "OK"
                       ELSE IF \E i \in 1..Len(v) : v[i] \in TextToks THEN "text" ELSE "other"
    [] ty = "reals" -> IF \A i \in 1..Len(v) : Numeric(v[i]) THEN "OK"
                       ELSE IF \E i \in 1..Len(v) : v[i] \in TextToks THEN "text" ELSE "other"
    [] ty = "vec"   -> IF Len(v) = 1 /\ v[1] \in VecToks THEN "OK"
                       ELSE IF \E i \in 1..Len(v) : v[i] \in TextToks THEN "text" ELSE "other"
    [] ty = "word"  -> IF Len(v) = 1 THEN "OK" ELSE "other"
    [] ty = "words" -> "OK"
    [] OTHER -> "other"

(* a verdict with the reason of an "R": [v |-> "OK" | "Any" | "R", why |-> STRING] *)
Sev(x) == CASE x.v = "OK" -> 0 [] x.v = "Any" -> 1 [] x.v = "R" -> 2
Worse(a, b) == IF Sev(a) >= Sev(b) THEN a ELSE b
VOK == [v |-> "OK", why |-> "-"]
VAny(w) == [v |-> "Any", why |-> w]
VR(w) == [v |-> "R", why |-> w]
RECURSIVE WorstOf(_, _)
WorstOf(f, n) == IF n = 0 THEN VOK ELSE Worse(WorstOf(f, n - 1), f[n])

(* values of keyword k among the lines ls (each line: <<kw, value...>>) *)
LinesOf(ls, k) == SelectSeq(ls, LAMBDA l : l[1] = k)
ValueOf(l) == IF Len(l) >= 2 /\ l[2] = "{" THEN NoNL(Inner(Tail(l))) ELSE Tail(l)

RECURSIVE Vd(_, _)
(* verdict of the token sequence t read in context c (t balanced, no comments) *)
Vd(t, c) ==
  LET ls == Lines(t)
      n == Len(ls)
      LineV(l) ==
        LET k == l[1]
            rest == Tail(l)
        IN IF k \in Braces THEN VAny("shape")
           ELSE IF HasBrace(rest) /\ ~Braced(rest) THEN VAny("shape")
           ELSE IF k \notin DOMAIN KT[c] THEN VR("unknown:" \o c \o "." \o k)
           ELSE LET ty == KT[c][k] IN
             IF ty = "block"
             THEN IF rest = <<>> THEN VR("novalue:" \o c \o "." \o k)
                  ELSE IF ~Braced(rest) THEN VAny("shape")
                  ELSE Worse(Vd(Inner(rest), k), IF Lines(Inner(rest)) = <<>> THEN VAny("empty") ELSE VOK)
             ELSE LET v == IF Braced(rest) THEN NoNL(Inner(rest)) ELSE rest IN
                  IF HasBrace(v) THEN VAny("shape")
                  \* braces around a boolean are not part of the documented syntax (the shorthand is the bare keyword)
                  ELSE IF ty = "bool" /\ Braced(rest) THEN VAny("shape")
                  ELSE LET s == ValStatus(ty, v) IN
                       IF s = "OK" THEN VOK ELSE IF s \in {"novalue", "text"} THEN VR(s \o ":" \o c \o "." \o k) ELSE VAny("value")
      lv == [i \in 1..n |-> LineV(ls[i])]
      Count(k) == Len(LinesOf(ls, k))
      Single == \A k \in DOMAIN KT[c] : KT[c][k] = "block" \/ Count(k) <= 1
      Sem ==
        CASE c = "colvar" -> Count("distanceZ") >= 1
          [] c = "distanceZ" -> Count("main") = 1 /\ Count("ref") = 1
          [] c = "main" -> Count("atomNumbers") = 1 /\ Count("dummyAtom") = 0
          [] c = "ref" -> Count("atomNumbers") + Count("dummyAtom") = 1
          [] c = "harmonic" -> /\ Count("colvars") = 1 /\ Count("centers") = 1
                               /\ Len(ValueOf(LinesOf(ls, "colvars")[1])) = Len(ValueOf(LinesOf(ls, "centers")[1]))
                               /\ Len(ValueOf(LinesOf(ls, "colvars")[1])) >= 1
          [] OTHER -> TRUE
  IN Worse(WorstOf(lv, n), IF Single /\ Sem THEN VOK ELSE VAny("semantic"))

(* names defined and used at module level (only evaluated on OK-shaped input) *)
TopBlocks(t, k) == LET ls == LinesOf(Lines(t), k) IN [i \in 1..Len(ls) |-> Lines(Inner(Tail(ls[i])))]
NameOf(bl, dflt) == LET nm == LinesOf(bl, "name") IN IF nm = <<>> THEN dflt ELSE nm[1][2]
CvNames(t) == LET b == TopBlocks(t, "colvar") IN [i \in 1..Len(b) |-> NameOf(b[i], "?")]
Range(f) == {f[i] : i \in DOMAIN f}
SemTop(t) ==
  LET cn == CvNames(t)
      hb == TopBlocks(t, "harmonic")
  IN /\ \A i, j \in 1..Len(cn) : i # j => cn[i] # cn[j]
     /\ "?" \notin Range(cn)
     /\ \A i \in 1..Len(hb) : Range(ValueOf(LinesOf(hb[i], "colvars")[1])) \subseteq Range(cn)
     /\ \A i, j \in 1..Len(hb) : i # j => NameOf(hb[i], "?") # NameOf(hb[j], "?")
     /\ \A i \in 1..Len(hb) : NameOf(hb[i], "?") # "?"

VerdictW(t) ==
  IF ~Balanced(t) THEN VR("unbalanced")
  ELSE LET s == StripComments(t)
           v == Vd(s, "top")
       IN IF v.v = "OK" /\ ~SemTop(s) THEN VAny("semantic") ELSE v
Verdict(t) == VerdictW(t).v

(* what a valid configuration defines *)
RECURSIVE Canon(_, _)
Canon(t, c) ==
  LET ls == Lines(t)
      One(l) ==
        LET k == l[1]  ty == KT[c][k]  rest == Tail(l) IN
        IF ty = "block" THEN [k |-> k, b |-> Canon(Inner(rest), k)]
        ELSE LET v == IF Braced(rest) THEN NoNL(Inner(rest)) ELSE rest IN
             IF ty = "bool" THEN [k |-> k, v |-> IF v = <<>> \/ v[1] \in BoolTrue THEN "on" ELSE "off"]
             ELSE [k |-> k, v |-> v]
  IN [i \in 1..Len(ls) |-> One(ls[i])]
Model(t) == Canon(StripComments(t), "top")
NumOf(t, k) == Len(LinesOf(Lines(StripComments(t)), k))

---------------------------------------------------------------------------
(* Abstract configurations: nested items                                   *)
(*   [k: keyword, v: value tokens, b: items of the block, isb, br]         *)
(* br: "ok", or a brace mutation applied when the item is written out.     *)

KV(k, v) == [k |-> k, v |-> v, b |-> <<>>, isb |-> FALSE, br |-> "ok"]
BL(k, b) == [k |-> k, v |-> <<>>, b |-> b, isb |-> TRUE, br |-> "ok"]

CvItem(nm, extra) ==
  BL("colvar", <<KV("name", <<nm>>), KV("width", <<"0.5">>)>> \o extra \o
     <<BL("distanceZ", <<BL("main", <<KV("atomNumbers", <<"2">>)>>),
                         BL("ref", <<KV("dummyAtom", <<"(0,0,1)">>)>>),
                         KV("axis", <<"(0,0,1)">>),
                         KV("oneSiteTotalForce", <<"on">>)>>)>>)
HItem(nm, cvs, cs) ==
  BL("harmonic", <<KV("name", <<nm>>), KV("colvars", cvs), KV("centers", cs),
                   KV("forceConstant", <<"2">>), KV("outputEnergy", <<"on">>)>>)

Base == <<
  <<KV("colvarsTrajFrequency", <<"2">>), CvItem("x", <<>>), HItem("h", <<"x">>, <<"0.5">>)>>,
  <<CvItem("x", <<KV("lowerBoundary", <<"0.5">>), KV("upperBoundary", <<"3">>)>>),
    CvItem("z", <<KV("outputValue", <<"off">>)>>),
    HItem("h", <<"x", "z">>, <<"0.5", "2">>)>>,
  <<CvItem("x", <<>>)>> >>

(* layouts at token level *)
Layouts == [blank : BOOLEAN, comment : BOOLEAN, split : BOOLEAN,
            bool : {"on", "yes", "true", "bare"},
            case : {"asis", "lower", "upper"}, ws : {"one", "tabs", "wide"}, eol : {"lf", "crlf"}]
PlainLayout == [blank |-> FALSE, comment |-> FALSE, split |-> FALSE, bool |-> "on",
                case |-> "asis", ws |-> "one", eol |-> "lf"]

IsListType(c, k) == c \in Ctxs /\ k \in DOMAIN KT[c] /\ KT[c][k] \in {"ints", "reals", "words"}
IsBoolType(c, k) == c \in Ctxs /\ k \in DOMAIN KT[c] /\ KT[c][k] = "bool"

RECURSIVE SeqJoin(_, _)
SeqJoin(f, n) == IF n = 0 THEN <<>> ELSE SeqJoin(f, n - 1) \o f[n]

RECURSIVE Flat(_, _, _)
Flat(items, c, L) ==
  LET EOLs == (IF L.comment THEN <<CM, "note">> ELSE <<>>) \o <<NL>> \o (IF L.blank THEN <<NL>> ELSE <<>>)
      One(it) ==
        IF it.isb
        THEN LET open == IF it.br = "noopen" THEN <<>> ELSE IF it.br = "extraopen" THEN <<"{", "{">> ELSE <<"{">>
                 close == IF it.br = "noclose" THEN <<>> ELSE IF it.br = "extraclose" THEN <<"}", "}">> ELSE <<"}">>
             IN <<it.k>> \o open \o EOLs \o Flat(it.b, it.k, L) \o close \o EOLs
        ELSE IF IsBoolType(c, it.k) /\ it.v = <<"on">>
             THEN <<it.k>> \o (IF L.bool = "bare" THEN <<>> ELSE <<L.bool>>) \o EOLs
        ELSE IF IsListType(c, it.k) /\ L.split /\ it.v # <<>>
             THEN <<it.k, "{">> \o EOLs \o SeqJoin([i \in 1..Len(it.v) |-> <<it.v[i]>> \o EOLs], Len(it.v)) \o <<"}">> \o EOLs
        ELSE <<it.k>> \o it.v \o EOLs
  IN SeqJoin([i \in 1..Len(items) |-> One(items[i])], Len(items))
Flatten(items, L) == Flat(items, "top", L)

(* keyword-level mutations of an item list *)
ReplaceAt(s, i, e) == [s EXCEPT ![i] = e]
WrongHere(c) == {k \in AllKw : k \notin DOMAIN KT[c]}
RECURSIVE Muts(_, _)
Muts(items, c) ==
  LET MutItem(it) ==
        LET ty == IF it.k \in DOMAIN KT[c] THEN KT[c][it.k] ELSE "?" IN
        {[m |-> "misspelt", it |-> [it EXCEPT !.k = it.k \o "x"]]}
        \cup {[m |-> "misplaced", it |-> [it EXCEPT !.k = w]] : w \in WrongHere(c)}
        \cup (IF ~it.isb /\ ty \notin {"bool", "?"} THEN {[m |-> "novalue", it |-> [it EXCEPT !.v = <<>>]]} ELSE {})
        \cup (IF ty \in {"int", "real", "ints", "reals", "vec"}
              THEN {[m |-> "text", it |-> [it EXCEPT !.v = <<x>>]] : x \in TextToks} ELSE {})
        \cup (IF it.isb THEN {[m |-> b, it |-> [it EXCEPT !.br = b]] : b \in {"noopen", "noclose", "extraopen", "extraclose"}} ELSE {})
        \cup (IF it.isb THEN {[m |-> x.m, it |-> [it EXCEPT !.b = x.items]] : x \in Muts(it.b, it.k)} ELSE {})
  IN UNION {{[m |-> x.m, items |-> ReplaceAt(items, i, x.it)] : x \in MutItem(items[i])} : i \in 1..Len(items)}

(* token-level edits of a flat sequence *)
Edits(t, A) ==
  {SubSeq(t, 1, i - 1) \o SubSeq(t, i + 1, Len(t)) : i \in 1..Len(t)}
  \cup {SubSeq(t, 1, i - 1) \o <<a>> \o SubSeq(t, i + 1, Len(t)) : i \in 1..Len(t), a \in A}
  \cup {SubSeq(t, 1, i) \o <<a>> \o SubSeq(t, i + 1, Len(t)) : i \in 0..Len(t), a \in A}
=============================================================================
