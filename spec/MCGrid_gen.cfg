SPECIFICATION MCSpec
CONSTANTS
  VS <- VS_Q
  ParamSet <- PS_Q
  MaxSteps = 3
  MaxRuns = 2
  EmitLen = 3
INVARIANTS Emit
CHECK_DEADLOCK FALSE
