SPECIFICATION MCSpec
CONSTANTS
  VS <- VS_T
  ParamSet <- PS_Q
  MaxSteps = 6
  MaxRuns = 2
INVARIANTS ItemsOK AcfOK CrossScope
\* vacuity: on
CHECK_DEADLOCK FALSE
