------------------------------ MODULE MCScript ------------------------------
EXTENDS Script
\* one-step behaviours from every reachable object state: (state, invocation, prescribed outcome, state after)
Emit == (last.cmd # "") => PrintT(<<"BEH", ToJson([last |-> last, cvs |-> cvs, biases |-> Dom(biases)])>>)
Witness1 == Cardinality(Dom(biases)) = 3 /\ cvs = {"v1", "v2"}
NoWitness1 == ~Witness1
Witness2 == last.out = "error" /\ cvs # {}
NoWitness2 == ~Witness2
=============================================================================
