----------------------------- MODULE DepsTrace -----------------------------
(* Trace validation of the real dependency operations (hook 1) against      *)
(* Deps.tla instantiated with the REAL feature tables.                      *)
(* Environment: TRACE (events), TABLES (one line per object kind),          *)
(* OBJS (id -> kind, precomputed by the recorder).                          *)
EXTENDS Deps, Json, IOUtils

TraceLog == ndJsonDeserialize(IOEnv.TRACE)
Tables == ndJsonDeserialize(IOEnv.TABLES)
Objs == ndJsonDeserialize(IOEnv.OBJS)

SeqToSet0(s) == {s[i] : i \in 1..Len(s)}
KindsT == {Tables[i].kind : i \in 1..Len(Tables)}
TableOf(k) == CHOOSE t \in SeqToSet0(Tables) : t.kind = k
ObjT == {Objs[i].id : i \in 1..Len(Objs)}

\* the tables, computed once (definitions substituted for constants are re-evaluated at every use)
FeatT == [k \in KindsT |-> 0..(TableOf(k).n - 1)]
FTypeT == [k \in KindsT |-> [f \in FeatT[k] |-> TableOf(k).feat[f + 1].t]]
ReqSelfT == [k \in KindsT |-> [f \in FeatT[k] |-> TableOf(k).feat[f + 1].self]]
ReqAltT == [k \in KindsT |-> [f \in FeatT[k] |-> TableOf(k).feat[f + 1].alt]]
ReqChildT == [k \in KindsT |-> [f \in FeatT[k] |-> TableOf(k).feat[f + 1].child]]
ReqExclT == [k \in KindsT |-> [f \in FeatT[k] |-> TableOf(k).feat[f + 1].excl]]
KindOfT == [o \in ObjT |-> Objs[CHOOSE i \in 1..Len(Objs) : Objs[i].id = o].kind]

VARIABLES fs, children, l
tvars == <<fs, children, l>>

Dead == << >>
Live == {o \in ObjT : fs[o] # Dead}
PostOf(e, o) == CHOOSE q \in SeqToSet0(e.post) : q.id = o
InPost(e) == {e.post[j].id : j \in 1..Len(e.post)}
FreshFrom(q) == [f \in 0..(Len(q.fs) - 1) |-> [avail |-> q.fs[f + 1][1] = 1, en |-> FALSE, rc |-> 0, alt |-> <<>>]]
LoggedFs(q) == [f \in 0..(Len(q.fs) - 1) |-> [avail |-> q.fs[f + 1][1] = 1, en |-> q.fs[f + 1][2] = 1, rc |-> q.fs[f + 1][3], alt |-> q.fs[f + 1][4]]]

\* world before the operation: objects seen for the first time are fresh; availability flags (which
\* the code also sets by direct assignment) are bound from the log
Pre(e) ==
  LET fs0 == [o \in ObjT |->
                IF o \in InPost(e)
                THEN LET q == PostOf(e, o)
                         base == IF fs[o] # Dead THEN fs[o] ELSE FreshFrom(q)
                     IN [f \in DOMAIN base |->
                           IF e.op = "provide" /\ o = e.o /\ f = e.a THEN base[f]
                           ELSE [base[f] EXCEPT !.avail = (q.fs[f + 1][1] = 1)]]
                ELSE fs[o]]
  IN W(fs0, children)

Apply(e, w) ==
  CASE e.op = "enable"  -> Enable(w, e.o, e.a, e.b = 1, e.c = 1, FALSE).w
    [] e.op = "disable" -> Disable(w, e.o, e.a).w
    [] e.op = "decr_ref_count" -> DecrRef(w, e.o, e.a).w
    [] e.op = "provide" -> Provide(w, e.o, e.a, e.b = 1)
    [] e.op = "add_child" -> AddChild(w, e.o, e.other)
    [] e.op = "remove_child" -> RemoveChild(w, e.o, e.other)
    [] e.op = "remove_all_children" -> RemoveAllChildren(w, e.o)
    [] e.op = "free_children_deps" -> FreeChildren(w, e.o, FeatList(e.o))
    [] e.op = "restore_children_deps" -> RestoreChildren(w, e.o, FeatList(e.o))
    [] e.op = "del" -> [w EXCEPT !.ch[e.o] = <<>>, !.fs[e.o] = Dead]
    [] OTHER -> w

Matches(e, w) == \A o \in InPost(e) :
                    /\ w.fs[o] = LoggedFs(PostOf(e, o))
                    /\ w.ch[o] = PostOf(e, o).ch

TInit == /\ fs = [o \in ObjT |-> Dead] /\ children = [o \in ObjT |-> <<>>] /\ l = 1
TStep == /\ l <= Len(TraceLog)
         /\ LET e == TraceLog[l] IN
            IF e.op = "Reset"
            THEN fs' = [o \in ObjT |-> Dead] /\ children' = [o \in ObjT |-> <<>>]
            ELSE LET w1 == Apply(e, Pre(e)) IN
                 /\ Matches(e, w1)
                 /\ fs' = w1.fs /\ children' = w1.ch
         /\ l' = l + 1
TSpec == TInit /\ [][TStep]_tvars

NotAccepted == l <= Len(TraceLog)
Progress == PrintT(<<"MAXL", l>>)

\* diagnostic (used by the check after a rejection): what the next event would need
Diag == IF l > Len(TraceLog) \/ TraceLog[l].op = "Reset" THEN TRUE
        ELSE LET e == TraceLog[l]  w1 == Apply(e, Pre(e))
                 bad == {<<o, f>> \in {<<o2, f2>> \in InPost(e) \X (0..60) : f2 < Len(PostOf(e, o2).fs)} :
                           w1.fs[o][f] # LoggedFs(PostOf(e, o))[f]}
                 badch == {o \in InPost(e) : w1.ch[o] # PostOf(e, o).ch}
             IN (bad # {} \/ badch # {}) =>
                  PrintT(<<"DIAG", l, e.op, e.o, e.a, {<<x[1], x[2], w1.fs[x[1]][x[2]], LoggedFs(PostOf(e, x[1]))[x[2]]>> : x \in bad}, badch>>)

\* the dependency invariants, on the real tables, at every recorded event that is a CHECKPOINT
\* (the harness marks events after which the module is in a quiescent state: after a configuration
\* call, a step, a deletion)
AtCheckpoint == l > 1 /\ l - 1 <= Len(TraceLog) /\ TraceLog[l - 1].op # "Reset" /\ TraceLog[l - 1].cp = 1
Wd == W(fs, children)
Inv1 == AtCheckpoint => I1_Self(Wd, Live)
Inv2 == AtCheckpoint => I2_Children(Wd, Live)
Inv3 == AtCheckpoint => I3_Excl(Wd, Live)
Inv4 == AtCheckpoint => I4_Alt(Wd, Live)
Inv5 == AtCheckpoint => I5_NeededStaysOn(Wd, Live)
=============================================================================
