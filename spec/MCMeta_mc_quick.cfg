SPECIFICATION MCSpec
CONSTANTS
  NB = 5
  XLo <- XLoDef
  XHi = 12
  ParamSet <- PS_Quick
  MaxSteps = 4
  MaxRuns = 2
  EmitLen = 5
VIEW View
INVARIANTS EnergyIsSumOfHills ScheduleOK ScheduleExact QuirkScope
\* vacuity: on
CHECK_DEADLOCK FALSE
