SPECIFICATION MCSpec
CONSTANTS
  XS <- XS_Q
  FB <- FB_Q
  RS <- RS_Q
  ParamSet <- PS_Q
  MaxSteps = 2
  MaxRuns = 2
  EmitLen = 3
VIEW View
INVARIANTS Emit
CHECK_DEADLOCK FALSE
