SPECIFICATION Spec
CONSTANTS
  MaxItems = 2
  MaxN = 2
INVARIANTS PropRoundTrip PropNeverPast PropCut Emit
CHECK_DEADLOCK FALSE
