SPECIFICATION MCSpec
CONSTANTS
  ScalarMax = 6
  PeriodicMax = 15
INVARIANTS EuclidMetric PeriodicMetric WrapOK AngularTable UnitMetric QuatMetric Emit
\* vacuity: on
CHECK_DEADLOCK FALSE
