SPECIFICATION TSpec
INVARIANTS Progress
CHECK_DEADLOCK FALSE
