----------------------------- MODULE Integrate -----------------------------
(***************************************************************************)
(* C16.  Free-energy integration of a gradient grid.                       *)
(*                                                                         *)
(* Shape p = [n |-> bins per dimension, per |-> periodic flags,            *)
(*            w |-> bin widths (integers)].                                *)
(* The gradient grid holds per bin the sum of the samples and their count; *)
(* the gradient is sum/count (0 for an empty bin).  The potential lives on *)
(* the points of the grid shifted by half a bin: N_i = n_i points in a     *)
(* periodic dimension, n_i + 1 otherwise.                                  *)
(*                                                                         *)
(* Mechanism (implementation-shaped):                                      *)
(*   div        the right-hand side kept up to date incrementally:         *)
(*              Arrive(b, v) adds a sample to bin b and recomputes         *)
(*              DivLocal at the 2^d points whose stencil contains b.       *)
(* Property (history-based): div equals the divergence recomputed from     *)
(* scratch from the final gradients, whatever the order and multiplicity   *)
(* of arrival; its sum over the grid vanishes (solvability); the discrete  *)
(* Laplacian Lap is symmetric and annihilates constants.                   *)
(*                                                                         *)
(* Arithmetic: integers.  Gradients are scaled by 12 (counts 1..4 divide   *)
(* 12), divergences by DS = 12 * 2^(d-1) * w_1...w_d.                      *)
(***************************************************************************)
EXTENDS Integers, Sequences, FiniteSets, TLC

CONSTANTS ParamSet, Values, MaxArrivals, MaxCount
VARIABLES p, grad, div, hist
ivars == <<p, grad, div, hist>>

ND == Len(p.n)
Dims == 1..ND
NPts(i) == IF p.per[i] THEN p.n[i] ELSE p.n[i] + 1
RECURSIVE Tuples(_, _)
\* all index tuples t with 0 <= t[i] < sz[i], i = 1..k
Tuples(sz, k) == IF k = 0 THEN {<<>>}
                 ELSE {Append(t, x) : t \in Tuples(sz, k - 1), x \in 0..(sz[k] - 1)}
PtSizes(q) == [i \in 1..Len(q.n) |-> IF q.per[i] THEN q.n[i] ELSE q.n[i] + 1]
Bins == Tuples(p.n, ND)
Points == Tuples(PtSizes(p), ND)
Zero == [i \in Dims |-> 0]

\* gradient (x 12) at an index tuple that may lie outside: wrapped in periodic dimensions, zero beyond a non-periodic edge
WrapBin(ix) == [i \in Dims |-> IF p.per[i] THEN (ix[i] + p.n[i]) % p.n[i] ELSE ix[i]]
Edge(ix) == \E i \in Dims : ~p.per[i] /\ (ix[i] < 0 \/ ix[i] >= p.n[i])
G12(ix) == IF Edge(ix) THEN Zero
           ELSE LET b == WrapBin(ix) IN
                IF grad[b].cnt = 0 THEN Zero ELSE [i \in Dims |-> (12 * grad[b].sum[i]) \div grad[b].cnt]
Exact(b) == grad[b].cnt = 0 \/ \A i \in Dims : (12 * grad[b].sum[i]) % grad[b].cnt = 0

WProd == IF ND = 2 THEN p.w[1] * p.w[2] ELSE p.w[1] * p.w[2] * p.w[3]
DS == 12 * (IF ND = 2 THEN 2 ELSE 4) * WProd
\* offsets of the 2^d bins around a point: each coordinate 0 or -1
Corners == Tuples([i \in Dims |-> 2], ND)       \* tuples over {0,1}
Shift(pt, c, sgn) == [i \in Dims |-> pt[i] + sgn * c[i]]
\* divergence (x DS) at point pt: for each dimension the difference of the gradient component across the point,
\* averaged over the 2^(d-1) pairs of surrounding bins
DivLocal(pt) ==
  LET Term(i) ==
        LET Others == {c \in Corners : c[i] = 0}
            SumOver(S) == LET RECURSIVE Acc(_)
                              Acc(T) == IF T = {} THEN 0
                                        ELSE LET c == CHOOSE x \in T : TRUE
                                                 hi == G12(Shift(pt, c, -1))[i]
                                                 lo == G12(Shift(pt, [c EXCEPT ![i] = 1], -1))[i]
                                             IN (hi - lo) + Acc(T \ {c})
                          IN Acc(S)
        IN SumOver(Others) * (WProd \div p.w[i])
  IN IF ND = 2 THEN Term(1) + Term(2) ELSE Term(1) + Term(2) + Term(3)

WrapPt(pt) == [i \in Dims |-> IF p.per[i] THEN pt[i] % NPts(i) ELSE pt[i]]
\* points whose stencil contains bin b
Touched(b) == {WrapPt(Shift(b, c, 1)) : c \in Corners}
BatchDiv == [pt \in Points |-> DivLocal(pt)]

IInit == /\ p \in ParamSet
         /\ grad = [b \in Tuples(p.n, Len(p.n)) |-> [sum |-> [i \in 1..Len(p.n) |-> 0], cnt |-> 0]]
         /\ div = [pt \in Tuples(PtSizes(p), Len(p.n)) |-> 0]
         /\ hist = <<>>

Arrive(b, v) ==
  /\ Len(hist) < (IF ND = 3 THEN MaxArrivals - 1 ELSE MaxArrivals) /\ grad[b].cnt < MaxCount
  /\ UNCHANGED p
  /\ grad' = [grad EXCEPT ![b] = [sum |-> [i \in Dims |-> @.sum[i] + v[i]], cnt |-> @.cnt + 1]]
  /\ div' = [pt \in Points |-> IF pt \in Touched(b) THEN DivLocal(pt)' ELSE div[pt]]
  /\ hist' = Append(hist, [b |-> b, v |-> v])
INext == \E b \in Bins, v \in [Dims -> Values] : Arrive(b, v)
ISpec == IInit /\ [][INext]_ivars

---------------------------------------------------------------------------
RECURSIVE SumF(_, _)
SumF(f, S) == IF S = {} THEN 0 ELSE LET x == CHOOSE y \in S : TRUE IN f[x] + SumF(f, S \ {x})

IncrementalEqualsBatch == div = BatchDiv
Solvable == SumF(div, Points) = 0
AllExact == \A b \in Bins : Exact(b)

---------------------------------------------------------------------------
(* The discrete Laplacian (x WW = (w_1...w_d)^2 * 2^k for the edge weights): in each dimension the second difference   *)
(* (one-sided at a non-periodic edge), weighted by 1/2 for every OTHER dimension in which the point lies on a          *)
(* non-periodic edge: the symmetric finite-volume form.                                                               *)
OnEdge(pt, i) == ~p.per[i] /\ (pt[i] = 0 \/ pt[i] = NPts(i) - 1)
\* weight x 2^(ND-1)
Weight(pt, i) == LET RECURSIVE W(_)
                     W(S) == IF S = {} THEN 1 ELSE LET j == CHOOSE x \in S : TRUE IN (IF OnEdge(pt, j) THEN 1 ELSE 2) * W(S \ {j})
                 IN W(Dims \ {i})
Step(pt, i, s) == WrapPt([pt EXCEPT ![i] = @ + s])
W2(i) == (WProd \div p.w[i]) * (WProd \div p.w[i])
\* (Lap A)(pt) x 2^(ND-1) x WProd^2, A integer-valued on Points
Lap(A, pt) ==
  LET D(i) == IF p.per[i] THEN A[Step(pt, i, 1)] + A[Step(pt, i, NPts(i) - 1)] - 2 * A[pt]
              ELSE IF pt[i] = 0 THEN A[Step(pt, i, 1)] - A[pt]
              ELSE IF pt[i] = NPts(i) - 1 THEN A[Step(pt, i, -1)] - A[pt]
              ELSE A[Step(pt, i, 1)] + A[Step(pt, i, -1)] - 2 * A[pt]
      T(i) == Weight(pt, i) * W2(i) * D(i)
  IN IF ND = 2 THEN T(1) + T(2) ELSE T(1) + T(2) + T(3)
UnitAt(q) == [pt \in Points |-> IF pt = q THEN 1 ELSE 0]
Const1 == [pt \in Points |-> 1]
LapSymmetric == hist = <<>> => \A q, r \in Points : Lap(UnitAt(q), r) = Lap(UnitAt(r), q)
LapKillsConstants == hist = <<>> => \A r \in Points : Lap(Const1, r) = 0

---------------------------------------------------------------------------
(* One dimension: the surface is the cumulative sum of (gradient - correction) * width, the correction being the mean *)
(* gradient for a periodic variable.  g: sequence of gradients x 12 per bin; result x 12 * n (mean has denominator n). *)
RECURSIVE SeqSum(_, _)
SeqSum(g, k) == IF k = 0 THEN 0 ELSE g[k] + SeqSum(g, k - 1)
Pmf1D(g, w, periodic) ==
  LET n == Len(g)
      corrN == IF periodic THEN SeqSum(g, n) ELSE 0        \* n * correction
  IN [k \in 1..(IF periodic THEN n ELSE n + 1) |-> w * (n * SeqSum(g, k - 1) - (k - 1) * corrN)]
Periodic1DCloses(g, w) == LET n == Len(g) IN w * (n * SeqSum(g, n) - n * SeqSum(g, n)) = 0
=============================================================================
