SPECIFICATION TSpec
CONSTANTS
  MaxWrites = 100000
  MaxCrashes = 100000
INVARIANTS Progress AlwaysPublished
CHECK_DEADLOCK FALSE
