---- MODULE MCCorr_TTrace_1791040835 ----
EXTENDS Sequences, TLCExt, Toolbox, MCCorr, Naturals, TLC

_expression ==
    LET MCCorr_TEExpression == INSTANCE MCCorr_TEExpression
    IN MCCorr_TEExpression!expression
----

_trace ==
    LET MCCorr_TETrace == INSTANCE MCCorr_TETrace
    IN MCCorr_TETrace!trace
----

_inv ==
    ~(
        TLCGet("level") = Len(_TETrace)
        /\
        acfPtr = (1)
        /\
        acfN = (1)
        /\
        started = (TRUE)
        /\
        it = (2)
        /\
        prevRel = (2)
        /\
        acfSum = (<<2592, 2592>>)
        /\
        p = ([kind |-> "vec", ctype |-> "p2", clen |-> 1, cstride |-> 1, cross |-> TRUE])
        /\
        xhist = (<<<<0, -6, 0>>, <<0, -6, 0>>, <<0, -6, 0>>>>)
        /\
        xOld = (<<0, -6, 0>>)
        /\
        acfInit = (TRUE)
        /\
        rel = (2)
        /\
        acfLists = (<<<<<<-6, 0, 0>>>>>>)
        /\
        vel = (<<0, 0, 0>>)
        /\
        runs = (1)
        /\
        lastX = (<<0, -6, 0>>)
        /\
        asamp = (<<<<-6, 0, 0>>, <<-6, 0, 0>>>>)
    )
----

_init ==
    /\ runs = _TETrace[1].runs
    /\ xOld = _TETrace[1].xOld
    /\ prevRel = _TETrace[1].prevRel
    /\ acfPtr = _TETrace[1].acfPtr
    /\ p = _TETrace[1].p
    /\ xhist = _TETrace[1].xhist
    /\ acfInit = _TETrace[1].acfInit
    /\ rel = _TETrace[1].rel
    /\ vel = _TETrace[1].vel
    /\ lastX = _TETrace[1].lastX
    /\ acfLists = _TETrace[1].acfLists
    /\ it = _TETrace[1].it
    /\ acfSum = _TETrace[1].acfSum
    /\ acfN = _TETrace[1].acfN
    /\ started = _TETrace[1].started
    /\ asamp = _TETrace[1].asamp
----

_next ==
    /\ \E i,j \in DOMAIN _TETrace:
        /\ \/ /\ j = i + 1
              /\ i = TLCGet("level")
        /\ runs  = _TETrace[i].runs
        /\ runs' = _TETrace[j].runs
        /\ xOld  = _TETrace[i].xOld
        /\ xOld' = _TETrace[j].xOld
        /\ prevRel  = _TETrace[i].prevRel
        /\ prevRel' = _TETrace[j].prevRel
        /\ acfPtr  = _TETrace[i].acfPtr
        /\ acfPtr' = _TETrace[j].acfPtr
        /\ p  = _TETrace[i].p
        /\ p' = _TETrace[j].p
        /\ xhist  = _TETrace[i].xhist
        /\ xhist' = _TETrace[j].xhist
        /\ acfInit  = _TETrace[i].acfInit
        /\ acfInit' = _TETrace[j].acfInit
        /\ rel  = _TETrace[i].rel
        /\ rel' = _TETrace[j].rel
        /\ vel  = _TETrace[i].vel
        /\ vel' = _TETrace[j].vel
        /\ lastX  = _TETrace[i].lastX
        /\ lastX' = _TETrace[j].lastX
        /\ acfLists  = _TETrace[i].acfLists
        /\ acfLists' = _TETrace[j].acfLists
        /\ it  = _TETrace[i].it
        /\ it' = _TETrace[j].it
        /\ acfSum  = _TETrace[i].acfSum
        /\ acfSum' = _TETrace[j].acfSum
        /\ acfN  = _TETrace[i].acfN
        /\ acfN' = _TETrace[j].acfN
        /\ started  = _TETrace[i].started
        /\ started' = _TETrace[j].started
        /\ asamp  = _TETrace[i].asamp
        /\ asamp' = _TETrace[j].asamp

\* Uncomment the ASSUME below to write the states of the error trace
\* to the given file in Json format. Note that you can pass any tuple
\* to `JsonSerialize`. For example, a sub-sequence of _TETrace.
    \* ASSUME
    \*     LET J == INSTANCE Json
    \*         IN J!JsonSerialize("MCCorr_TTrace_1791040835.json", _TETrace)

=============================================================================

 Note that you can extract this module `MCCorr_TEExpression`
  to a dedicated file to reuse `expression` (the module in the 
  dedicated `MCCorr_TEExpression.tla` file takes precedence 
  over the module `MCCorr_TEExpression` below).

---- MODULE MCCorr_TEExpression ----
EXTENDS Sequences, TLCExt, Toolbox, MCCorr, Naturals, TLC

expression == 
    [
        \* To hide variables of the `MCCorr` spec from the error trace,
        \* remove the variables below.  The trace will be written in the order
        \* of the fields of this record.
        runs |-> runs
        ,xOld |-> xOld
        ,prevRel |-> prevRel
        ,acfPtr |-> acfPtr
        ,p |-> p
        ,xhist |-> xhist
        ,acfInit |-> acfInit
        ,rel |-> rel
        ,vel |-> vel
        ,lastX |-> lastX
        ,acfLists |-> acfLists
        ,it |-> it
        ,acfSum |-> acfSum
        ,acfN |-> acfN
        ,started |-> started
        ,asamp |-> asamp
        
        \* Put additional constant-, state-, and action-level expressions here:
        \* ,_stateNumber |-> _TEPosition
        \* ,_runsUnchanged |-> runs = runs'
        
        \* Format the `runs` variable as Json value.
        \* ,_runsJson |->
        \*     LET J == INSTANCE Json
        \*     IN J!ToJson(runs)
        
        \* Lastly, you may build expressions over arbitrary sets of states by
        \* leveraging the _TETrace operator.  For example, this is how to
        \* count the number of times a spec variable changed up to the current
        \* state in the trace.
        \* ,_runsModCount |->
        \*     LET F[s \in DOMAIN _TETrace] ==
        \*         IF s = 1 THEN 0
        \*         ELSE IF _TETrace[s].runs # _TETrace[s-1].runs
        \*             THEN 1 + F[s-1] ELSE F[s-1]
        \*     IN F[_TEPosition - 1]
    ]

=============================================================================



Parsing and semantic processing can take forever if the trace below is long.
 In this case, it is advised to uncomment the module below to deserialize the
 trace from a generated binary file.

\*
\*---- MODULE MCCorr_TETrace ----
\*EXTENDS IOUtils, MCCorr, TLC
\*
\*trace == IODeserialize("MCCorr_TTrace_1791040835.bin", TRUE)
\*
\*=============================================================================
\*

---- MODULE MCCorr_TETrace ----
EXTENDS MCCorr, TLC

trace == 
    <<
    ([acfPtr |-> 1,acfN |-> 0,started |-> FALSE,it |-> 0,prevRel |-> -1,acfSum |-> <<0, 0>>,p |-> [kind |-> "vec", ctype |-> "p2", clen |-> 1, cstride |-> 1, cross |-> TRUE],xhist |-> <<>>,xOld |-> <<0, 0, 0>>,acfInit |-> FALSE,rel |-> 0,acfLists |-> <<<<>>>>,vel |-> <<0, 0, 0>>,runs |-> 1,lastX |-> <<0, 0, 0>>,asamp |-> <<>>]),
    ([acfPtr |-> 1,acfN |-> 0,started |-> TRUE,it |-> 0,prevRel |-> 0,acfSum |-> <<0, 0>>,p |-> [kind |-> "vec", ctype |-> "p2", clen |-> 1, cstride |-> 1, cross |-> TRUE],xhist |-> <<<<0, -6, 0>>>>,xOld |-> <<0, -6, 0>>,acfInit |-> TRUE,rel |-> 0,acfLists |-> <<<<>>>>,vel |-> <<0, 0, 0>>,runs |-> 1,lastX |-> <<0, -6, 0>>,asamp |-> <<>>]),
    ([acfPtr |-> 1,acfN |-> 0,started |-> TRUE,it |-> 1,prevRel |-> 1,acfSum |-> <<0, 0>>,p |-> [kind |-> "vec", ctype |-> "p2", clen |-> 1, cstride |-> 1, cross |-> TRUE],xhist |-> <<<<0, -6, 0>>, <<0, -6, 0>>>>,xOld |-> <<0, -6, 0>>,acfInit |-> TRUE,rel |-> 1,acfLists |-> <<<<<<-6, 0, 0>>>>>>,vel |-> <<0, 0, 0>>,runs |-> 1,lastX |-> <<0, -6, 0>>,asamp |-> <<<<-6, 0, 0>>>>]),
    ([acfPtr |-> 1,acfN |-> 1,started |-> TRUE,it |-> 2,prevRel |-> 2,acfSum |-> <<2592, 2592>>,p |-> [kind |-> "vec", ctype |-> "p2", clen |-> 1, cstride |-> 1, cross |-> TRUE],xhist |-> <<<<0, -6, 0>>, <<0, -6, 0>>, <<0, -6, 0>>>>,xOld |-> <<0, -6, 0>>,acfInit |-> TRUE,rel |-> 2,acfLists |-> <<<<<<-6, 0, 0>>>>>>,vel |-> <<0, 0, 0>>,runs |-> 1,lastX |-> <<0, -6, 0>>,asamp |-> <<<<-6, 0, 0>>, <<-6, 0, 0>>>>])
    >>
----


=============================================================================

---- CONFIG MCCorr_TTrace_1791040835 ----
CONSTANTS
    VS <- VS_Q
    ParamSet <- PS_Q
    MaxSteps = 6
    MaxRuns = 2

INVARIANT
    _inv

CHECK_DEADLOCK
    \* CHECK_DEADLOCK off because of PROPERTY or INVARIANT above.
    FALSE

INIT
    _init

NEXT
    _next

CONSTANT
    _TETrace <- _trace

ALIAS
    _expression
=============================================================================
\* Generated on Sat Oct 03 15:20:37 UTC 2026