SPECIFICATION MCSpec
CONSTANTS
  NB = 3
  FS <- FS_A
  ParamSet <- PS_Quick
  MaxSteps = 6
  MaxRuns = 3
  D = 2520
  EmitLen = 6
VIEW View
INVARIANTS TypeOK CountOK CountExact SumExact AppliedOK OutsideZero NoBiasZero CapOK DeliveredOK
CHECK_DEADLOCK FALSE
\* vacuity: on
