------------------------------- MODULE ExtLag -------------------------------
(***************************************************************************)
(* Extended-Lagrangian coordinate of a scalar variable (C17): the          *)
(* fictitious coordinate x_ext with velocity v_ext coupled to the actual   *)
(* value x by a spring, integrated by the documented scheme                *)
(*   B (full kick, in two halves)  A (half drift)  O (friction + noise)    *)
(*   A (half drift), reflection at reflecting boundaries,                  *)
(* with k = m = dt = 1 exactly (extendedTemp 1/kB, extendedFluctuation 1,  *)
(* extendedTimeConstant 2 pi) and, for Langevin dynamics, exp(-gamma dt) = *)
(* 3/5 so that the noise amplitude sqrt(1 - 9/25) is 4/5.  All numbers are *)
(* scaled by SC.                                                           *)
(*                                                                         *)
(* Mechanism variables follow colvar.cpp (x_ext, v_ext, prev_x_ext,        *)
(* prev_v_ext, prev_timestep, x_old).  The PROPERTY is the recurrence      *)
(* applied once per physical step to the history of inputs.                *)
(***************************************************************************)
EXTENDS Integers, Sequences, FiniteSets, TLC

CONSTANTS XS,         \* actual values of the variable (unscaled integers)
          FB,         \* forces of the biases on the extended coordinate (unscaled)
          RS,         \* values of the controlled random source
          ParamSet, MaxSteps, MaxRuns

VARIABLES p, it, rel, cont, started, runs, afterRestart,
          xe, ve, prevXe, prevVe, prevT, xOld, inited,      \* mechanism (scaled by SC)
          xRep, vRep, fAtoms, ePot2, eKin8, ftRep, errRep, edgeRep,   \* what is reported / applied at the step
          lastIn,                                            \* engine: inputs of the last computed step
          hist,                                              \* history: physical step -> [x, fb, r]
          quirk
mech == <<it, rel, cont, started, runs, afterRestart, xe, ve, prevXe, prevVe, prevT, xOld, inited, xRep, vRep, fAtoms, ePot2, eKin8, ftRep, errRep, edgeRep, lastIn>>
xvars == <<p, mech, hist, quirk>>

Lang == p.langevin
SC == p.sc            \* scale: 2 without friction (everything stays integer), 4096 with friction (denominators double every step)
Lo == p.lower * SC
Hi == p.upper * SC
FDiv(a) == IF a % 5 = 0 THEN a \div 5 ELSE Assert(FALSE, <<"SC too small: not a multiple of 5", a>>)
HDiv(a) == IF a % 2 = 0 THEN a \div 2 ELSE Assert(FALSE, <<"SC too small: odd half", a>>)

\* one integration step from (x_ext, v_ext) with actual value x, bias force fb and random number r (all scaled)
Integrate(xe0, ve0, x, fb, r) ==
  LET fsys == -(xe0 - x)                       \* spring, k = 1
      fext == fb + fsys
      vh == ve0 + HDiv(fext)                    \* first half kick: velocity at time t
      v1 == vh + HDiv(fext)
      xa == xe0 + HDiv(v1)
      v2 == IF Lang THEN FDiv(3 * v1 + 4 * r) ELSE v1          \* exp(-gamma dt) = 3/5, sigma/m = 4/5
      xb == xa + HDiv(v2)
      under == p.reflLo /\ xb < Lo
      over == p.reflHi /\ xb > Hi
      xc == IF under THEN xb - 2 * (xb - Lo) ELSE IF over THEN xb - 2 * (xb - Hi) ELSE xb
      v3 == IF under \/ over THEN -HDiv(ve0 + v2) ELSE v2
      \* an overshoot larger than the interval is still outside after one reflection: the code raises an error
      bad == (p.reflLo /\ xc < Lo) \/ (p.reflHi /\ xc > Hi)
      \* landing exactly on a boundary: with inexact coefficients (friction) rounding decides whether the code reflects
      edge == (p.reflLo /\ xb = Lo) \/ (p.reflHi /\ xb = Hi)
  IN [xe |-> xc, ve |-> v3, vh |-> vh, fsys |-> fsys, fext |-> fext, err |-> bad, edge |-> edge]

Calc(x, fb, r, newRel) ==
  LET \* ---- calc_colvar_properties
      doInit == (newRel = 0 /\ ~afterRestart) \/ ~inited
      xInit == IF p.reflLo /\ x < Lo THEN Lo ELSE IF p.reflHi /\ x > Hi THEN Hi ELSE x
      \* a repeated step reverts to the backup taken before the previous integration - also when the initialisation
      \* branch was taken just before (the revert comes second in the code)
      repeated == inited /\ newRel = prevT
      jump == 2 * (IF x > xOld THEN x - xOld ELSE xOld - x) > SC     \* |x - x_old| / width > 1/2
      xe0 == IF repeated THEN (IF jump THEN x ELSE prevXe) ELSE IF doInit THEN xInit ELSE xe
      ve0 == IF repeated THEN (IF jump THEN (IF doInit THEN 0 ELSE ve) ELSE prevVe) ELSE IF doInit THEN 0 ELSE ve
      g == Integrate(xe0, ve0, x, fb, r)
  IN /\ xRep' = xe0 /\ vRep' = ve0
     /\ prevXe' = xe0 /\ prevVe' = ve0
     /\ xe' = g.xe /\ ve' = g.ve
     /\ fAtoms' = -(g.fsys)                                          \* the atoms feel only the spring
     \* energies are carried only without friction (with the large scale the squares would overflow TLC's integers)
     /\ ePot2' = (IF Lang THEN 0 ELSE (xe0 - x) * (xe0 - x))           \* 2 SC^2 E_pot
     /\ eKin8' = (IF Lang THEN 0 ELSE 4 * g.vh * g.vh)                 \* 8 SC^2 E_kin  (velocity at time t)
     /\ ftRep' = (IF p.subtract THEN g.fsys ELSE g.fext) /\ errRep' = g.err /\ edgeRep' = g.edge
     /\ xOld' = x /\ prevT' = newRel /\ inited' = TRUE /\ afterRestart' = FALSE
     /\ lastIn' = [x |-> x, fb |-> fb, r |-> r]

InitWith(pp) == /\ p = pp /\ it = 0 /\ rel = 0 /\ cont = FALSE /\ started = FALSE /\ runs = 1 /\ afterRestart = FALSE
                /\ xe = 0 /\ ve = 0 /\ prevXe = 0 /\ prevVe = 0 /\ prevT = -1 /\ xOld = 0 /\ inited = FALSE
                /\ xRep = 0 /\ vRep = 0 /\ fAtoms = 0 /\ ePot2 = 0 /\ eKin8 = 0 /\ ftRep = 0 /\ errRep = FALSE /\ edgeRep = FALSE
                /\ lastIn = [x |-> 0, fb |-> 0, r |-> 0] /\ hist = <<>> /\ quirk = {}
Init == \E pp \in ParamSet : InitWith(pp)
Ins == {[x |-> x * SC, fb |-> f * SC, r |-> r * SC] : x \in XS, f \in FB, r \in (IF p.langevin THEN RS ELSE {0})}
First(i) == /\ ~started /\ started' = TRUE /\ rel' = 0 /\ cont' = FALSE /\ UNCHANGED <<it, runs, p, quirk>>
            /\ Calc(i.x, i.fb, i.r, 0) /\ hist' = <<i>>
Step(i) == /\ started /\ it < MaxSteps /\ it' = it + 1 /\ rel' = rel + 1 /\ cont' = FALSE /\ UNCHANGED <<started, runs, p, quirk>>
           /\ Calc(i.x, i.fb, i.r, rel + 1) /\ hist' = Append(hist, i)
\* a new run in the same process repeats the step with the same inputs
NewRun == /\ started /\ runs < MaxRuns /\ runs' = runs + 1 /\ cont' = TRUE /\ UNCHANGED <<it, rel, started, p, hist, quirk>>
          /\ Calc(lastIn.x, lastIn.fb, lastIn.r, rel)
\* stop, save (the state holds the REPORTED coordinate and velocity, i.e. those at the beginning of the step), fresh
\* instance, load, repeat the step
Restart == /\ started /\ runs < MaxRuns /\ runs' = runs + 1 /\ cont' = FALSE /\ rel' = 0 /\ UNCHANGED <<it, started, p, hist, quirk>>
           /\ LET g == Integrate(xRep, vRep, lastIn.x, lastIn.fb, lastIn.r) IN
              /\ xRep' = xRep /\ vRep' = vRep /\ prevXe' = xRep /\ prevVe' = vRep
              /\ xe' = g.xe /\ ve' = g.ve /\ fAtoms' = -(g.fsys)
              /\ ePot2' = (IF Lang THEN 0 ELSE (xRep - lastIn.x) * (xRep - lastIn.x)) /\ eKin8' = (IF Lang THEN 0 ELSE 4 * g.vh * g.vh)
              /\ ftRep' = (IF p.subtract THEN g.fsys ELSE g.fext) /\ errRep' = g.err /\ edgeRep' = g.edge
              /\ xOld' = lastIn.x /\ prevT' = 0 /\ inited' = TRUE /\ afterRestart' = FALSE /\ UNCHANGED lastIn
Next == (\E i \in Ins : First(i) \/ Step(i)) \/ NewRun \/ Restart
Spec == Init /\ [][Next]_xvars

(***************************************************************************)
(* The documented recurrence over the history of physical steps            *)
(***************************************************************************)
RECURSIVE Rec(_)
\* state [xe, ve] at the BEGINNING of physical step n (n = 1 is the first step)
Rec(n) == IF n = 1 THEN [xe |-> (LET x == hist[1].x IN IF p.reflLo /\ x < Lo THEN Lo ELSE IF p.reflHi /\ x > Hi THEN Hi ELSE x), ve |-> 0]
          ELSE LET s == Rec(n - 1) g == Integrate(s.xe, s.ve, hist[n - 1].x, hist[n - 1].fb, hist[n - 1].r) IN [xe |-> g.xe, ve |-> g.ve]
N == Len(hist)
\* the reported coordinate and velocity are those of the recurrence at the beginning of the current step,
\* however the run was segmented (a repeated step does not advance the coordinate twice)
FollowsIntegrator == (started /\ quirk = {}) => (xRep = Rec(N).xe /\ vRep = Rec(N).ve)
\* the atoms feel only the coupling spring, taken at the same time origin as the reported value
AtomsFeelSpring == started => fAtoms = xRep - lastIn.x
\* reflecting boundaries are never crossed
Bounded == (started /\ ~errRep) => ((p.reflLo => xe >= Lo) /\ (p.reflHi => xe <= Hi))
\* without friction and without bias, for a fixed actual value, the leapfrog invariant
\* v(t+1/2)^2 + (x_ext(t) - x)(x_ext(t+1) - x) is conserved exactly: no drift
\* (the coordinate is displaced by letting the actual value jump once, after the first step)
FreeOscillation == ~Lang /\ ~p.reflLo /\ ~p.reflHi /\ N >= 2 /\ (\A n \in 1..N : hist[n].fb = 0) /\ (\A n \in 2..N : hist[n].x = hist[2].x)
Shadow(xa, xb, v, c) == v * v + (xa - c) * (xb - c)
NoDrift == (started /\ FreeOscillation /\ N >= 3) =>
             LET c == hist[2].x  a == Rec(2)  b == Rec(3) IN
             Shadow(xRep, xe, ve, c) = Shadow(a.xe, b.xe, b.ve, c)
=============================================================================
