------------------------------ MODULE MCAbf2D ------------------------------
EXTENDS Abf2D, Json

CONSTANTS EmitLen

VARIABLE hist

Params(same, mn, fl, per, mf, ab, sub, oth) ==
  [sameStep |-> same, minS |-> mn, fullS |-> fl, per |-> per, maxF |-> mf,
   applyBias |-> ab, sub |-> sub, otherF |-> oth, dev |-> FALSE]

NoPer == <<FALSE, FALSE>>
\* timing x per-variable subtraction x another bias on the FIRST variable only x ramp
PS_Core == { Params(same, r[1], r[2], NoPer, <<0, 0>>, TRUE, sub, oth) :
               same \in BOOLEAN, sub \in {<<FALSE, FALSE>>, <<TRUE, FALSE>>, <<TRUE, TRUE>>},
               oth \in {<<0, 0>>, <<-2, 0>>}, r \in {<<0, 1>>, <<1, 3>>} }
\* single-feature variations: second dimension periodic, different caps per dimension, applyBias off,
\* other bias on the SECOND variable with subtraction on the first
PS_Feat == { Params(same, 0, 1, per, mf, ab, <<FALSE, FALSE>>, <<0, 0>>) :
               same \in BOOLEAN, per \in {NoPer, <<FALSE, TRUE>>}, mf \in {<<0, 0>>, <<2, 1>>}, ab \in BOOLEAN }
           \cup { Params(same, 0, 1, NoPer, <<0, 0>>, TRUE, <<TRUE, FALSE>>, <<0, 3>>) : same \in BOOLEAN }
PS_Quick == PS_Core \cup PS_Feat
\* quick tier: the core without the redundant corners (same-step timing only with the plain ramp, another bias only
\* with the delayed ramp or same-step timing) plus every single-feature variation
PS_Small == { q \in PS_Core : (q.sameStep => q.minS = 0) /\ (q.otherF # <<0, 0>> => (q.minS = 1 \/ q.sameStep)) } \cup PS_Feat
\* the same configurations with the code's deviation followed: the real code must then agree at EVERY step,
\* also after the deviation fired (deep behaviours are otherwise lost to the known finding)
PS_Dev == { [q EXCEPT !.dev = TRUE] : q \in { q \in PS_Core : q.sub # <<FALSE, FALSE>> /\ ~q.sameStep } }
PS_Sim == PS_Quick \cup PS_Dev
\* thorough tier, one action deeper: the delayed-force convention only (the same-step one has no pipeline to get wrong)
PS_Deep == { q \in PS_Core : ~q.sameStep }
FS2_One == {<<-1, 2>>}
PS_One == { Params(FALSE, 0, 1, NoPer, <<0, 0>>, TRUE, <<FALSE, FALSE>>, <<0, 0>>) }

X1_A == {0, 1, 2}
X2_A == {-1, 0, 1}
X1_B == {-1, 0, 1, 2}
X2_B == {-1, 0, 1, 2, 3}
FS2_A == {<<-1, 2>>, <<2, 0>>}
FS2_B == {<<-1, 2>>, <<2, 0>>, <<0, -3>>, <<1, 1>>}

\* row-major list of the bins (last variable fastest), the order of the saved state
NBins == NB1 * NB2
BinAt(k) == <<(k - 1) \div NB2, (k - 1) % NB2>>
SList == [k \in 1..NBins |-> samples'[BinAt(k)]]
GList == [k \in 1..NBins |-> gsum'[BinAt(k)]]

Rec(a, x, f) == [a |-> a, x |-> x, f |-> f, it |-> it', s |-> SList, g |-> GList, F |-> abfF', ft |-> ft', q |-> quirk']

Witness1 == \E b \in Bins2 : samples[b] >= 2
NoWitness1 == ~Witness1
Witness2 == started /\ ~InGrid(bin) /\ (bin[1] \in 0..(NB1 - 1) \/ bin[2] \in 0..(NB2 - 1))   \* exactly one variable outside
NoWitness2 == ~Witness2
Witness3 == abfF[1] # 0 /\ abfF[2] # 0
NoWitness3 == ~Witness3
Witness4 == runs > 1 /\ \E b \in Bins2 : samples[b] >= 1
NoWitness4 == ~Witness4
Witness5 == \E s \in delivered : ~InGrid(phys[s].bin)
NoWitness5 == ~Witness5
Witness6 == \E b1 \in Bins2, b2 \in Bins2 : b1 # b2 /\ samples[b1] >= 1 /\ samples[b2] >= 1
NoWitness6 == ~Witness6

MCInit == Init /\ hist = <<>>
MCNext == /\ Len(hist) < EmitLen
          /\ UNCHANGED p
          /\ \/ \E x1 \in XS1, x2 \in XS2, f \in FS2 :
                  \/ First(<<x1, x2>>, Scaled(f)) /\ hist' = Append(hist, Rec("First", <<x1, x2>>, f))
                  \/ Step(<<x1, x2>>, Scaled(f)) /\ hist' = Append(hist, Rec("Step", <<x1, x2>>, f))
             \/ NewRun /\ hist' = Append(hist, Rec("NewRun", lastX, <<lastSys[1] \div D, lastSys[2] \div D>>))
             \/ Restart /\ hist' = Append(hist, Rec("Restart", lastX, <<lastSys[1] \div D, lastSys[2] \div D>>))
MCSpec == MCInit /\ [][MCNext]_<<vars, hist>>

View == vars

Emit == (Len(hist) = EmitLen) => PrintT(<<"BEH", ToJson([p |-> p, nb |-> <<NB1, NB2>>, d |-> D, acts |-> hist])>>)

=============================================================================
