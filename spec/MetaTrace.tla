----------------------------- MODULE MetaTrace -----------------------------
EXTENDS Meta, Json, IOUtils

TraceLog == ndJsonDeserialize(IOEnv.TRACE)
VARIABLE l
Ev == TraceLog[l]

Matches(e) == it' = e.it /\ energy' = e.E /\ force' = e.F

ResetTo(pp) ==
  /\ p' = pp
  /\ it' = 0 /\ rel' = 0 /\ cont' = FALSE /\ started' = FALSE /\ lastX' = 0 /\ runs' = 1
  /\ hills' = <<>> /\ nb' = 1 /\ og' = <<>>
  /\ gE' = [b \in Bins |-> 0] /\ gF' = [b \in Bins |-> 0]
  /\ energy' = 0 /\ force' = 0
  /\ deposited' = <<>> /\ tab' = 0 /\ quirk' = {}

TInit == l = 2 /\ InitWith(TraceLog[1].p)
TStep ==
  /\ l <= Len(TraceLog)
  /\ l' = l + 1
  /\ LET e == Ev IN
     \/ e.e = "Reset" /\ ResetTo(e.p)
     \/ e.e = "First" /\ First(e.x) /\ Matches(e)
     \/ e.e = "Step" /\ Step(e.x) /\ Matches(e)
     \/ e.e = "NewRun" /\ NewRun /\ Matches(e)
     \/ e.e = "Restart" /\ Restart /\ Matches(e)
TSpec == TInit /\ [][TStep]_<<vars, l>>
NotAccepted == l <= Len(TraceLog)
Progress == PrintT(<<"MAXL", l>>)
\* report which named deviations the recorded executions needed
QuirkReport == \A q \in quirk : (energy # ExpE(1) \/ force # ExpF(1)) => PrintT(<<"QUIRK", q>>)
=============================================================================
