SPECIFICATION MCSpec
CONSTANTS
  ParamSet <- PS_T
  Values <- VS_T
  MaxArrivals = 8
  MaxCount = 4
  EmitLen = 8
INVARIANTS Emit IncrementalEqualsBatch Solvable
CHECK_DEADLOCK FALSE
