SPECIFICATION MCSpec
CONSTANTS
  W = 4
  NBins = 2
  Values <- VS_Q
  Freq = 2
  MaxSteps = 5
  MaxRestarts = 1
  EmitLen = 12
INVARIANTS Emit ExactlyOnce OwnRecoverable NeverTwice
CHECK_DEADLOCK FALSE
