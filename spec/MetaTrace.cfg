SPECIFICATION TSpec
CONSTANTS
  NB = 6
  XLo = 0
  XHi = 0
  ParamSet = {}
  MaxSteps = 1000
  MaxRuns = 1000
INVARIANTS Progress QuirkReport EnergyIsSumOfHills ScheduleOK QuirkScope
CHECK_DEADLOCK FALSE
