------------------------------- MODULE Output -------------------------------
(***************************************************************************)
(* Written outputs (C19): the trajectory file of one scalar variable (and  *)
(* optionally the energy column of a bias that is added / deleted at run   *)
(* time) and the running-average file.                                     *)
(*                                                                         *)
(* Trajectory mechanism (colvarmodule::write_traj_files): a label line is  *)
(* written at the first step of a run, whenever the set of columns was     *)
(* changed, and every 1000 data lines; a data line at every step that is a *)
(* multiple of colvarsTrajFrequency.  Running average (colvar::calc_runave)*)
(* : at every run-relative step that is a multiple of runAveStride (each   *)
(* step at most once) the value is sampled; once runAveLength samples are  *)
(* available a line [step, mean, stddev] of the last runAveLength samples  *)
(* is written.  Values are integers; the mean is carried as a sum, the     *)
(* variance as L*sum(v^2) - (sum v)^2 (= L (L-1) variance).                *)
(***************************************************************************)
EXTENDS Integers, Sequences, FiniteSets, TLC

CONSTANTS XS, ParamSet, MaxSteps, MaxRuns

VARIABLES p, it, rel, cont, started, runs, lastX, prevRel,
          biasOn, labelDue,        \* is the energy column present; was the column set changed since the last label
          traj,                    \* the trajectory file: sequence of [k |-> "label", cols] / [k |-> "data", step, x, ncols, run]
          window,                  \* running average: the last sampled values (most recent first, at most L-1)
          ravg,                    \* the running-average file: sequence of [step, sum, var]
          samples,                 \* history: sequence of [rel, x] of every sampled step (stride, once per step)
          acfLists, acfPtr, acfN, acfSum, acfInit,   \* coordinate autocorrelation function: per-slot histories, frames, sums
          asamp,                   \* history: the values processed by the correlation function, in order
          active, shownX, quirk    \* known deviation (C13): deleting its last bias leaves the variable inactive; the file then shows a stale value
ovars == <<p, it, rel, cont, started, runs, lastX, prevRel, biasOn, labelDue, traj, window, ravg, samples, acfLists, acfPtr, acfN, acfSum, acfInit, asamp, active, shownX, quirk>>

F == p.freq
L == p.len
S == p.stride
LC == p.clen          \* corrFuncLength (0 = off)
SC == p.cstride       \* corrFuncStride
Cols(b) == IF b THEN <<"step", "z", "E_h">> ELSE <<"step", "z">>
SumSeq(s) == LET RECURSIVE R(_) R(i) == IF i > Len(s) THEN 0 ELSE s[i] + R(i + 1) IN R(1)
SumSq(s) == LET RECURSIVE R(_) R(i) == IF i > Len(s) THEN 0 ELSE s[i] * s[i] + R(i + 1) IN R(1)
Take(s, n) == SubSeq(s, 1, IF Len(s) < n THEN Len(s) ELSE n)

Calc(x, t, newRel, isRepeat) ==
  LET \* ---- running average (part of the analysis, before the trajectory is written)
      \* the very first call only initialises the history: the value of the first step is not sampled
      doSample == L > 0 /\ started /\ (newRel % S = 0) /\ (newRel > prevRel)
      vals == <<x>> \o window
      emit == doSample /\ Len(window) >= L - 1
      line == [step |-> newRel, sum |-> SumSeq(vals), var |-> Len(vals) * SumSq(vals) - SumSeq(vals) * SumSeq(vals), n |-> Len(vals)]
      \* ---- autocorrelation (coordinate type, not normalised): the very first call only allocates the histories
      acfDo == LC > 0 /\ acfInit /\ (newRel > prevRel)
      lst == acfLists[acfPtr]
      full == Len(lst) >= LC
      sum1 == [k \in 1..(LC + 1) |-> acfSum[k] + (IF k = 1 THEN x * x ELSE x * lst[k - 1])]
      \* ---- trajectory
      wantLabel == F > 0 /\ (newRel = 0 \/ labelDue)
      t1 == IF wantLabel THEN Append(traj, [k |-> "label", cols |-> Cols(biasOn), step |-> t, x |-> 0, ncols |-> Len(Cols(biasOn)), run |-> runs']) ELSE traj
      wantData == F > 0 /\ (t % F = 0)
      xs == IF active THEN x ELSE shownX
      t2 == IF wantData THEN Append(t1, [k |-> "data", cols |-> <<>>, step |-> t, x |-> xs, ncols |-> Len(Cols(biasOn)), run |-> runs']) ELSE t1
  IN /\ traj' = t2 /\ labelDue' = (IF wantLabel THEN FALSE ELSE labelDue)
     /\ window' = IF doSample THEN Take(vals, L - 1) ELSE window
     /\ ravg' = IF emit THEN Append(ravg, line) ELSE ravg
     /\ samples' = IF doSample THEN Append(samples, [rel |-> newRel, x |-> x]) ELSE samples
     /\ acfInit' = (acfInit \/ LC > 0)
     /\ acfSum' = IF acfDo /\ full THEN sum1 ELSE acfSum
     /\ acfN' = IF acfDo /\ full THEN acfN + 1 ELSE acfN
     /\ acfLists' = IF acfDo THEN [acfLists EXCEPT ![acfPtr] = Take(<<x>> \o lst, LC)] ELSE acfLists
     /\ acfPtr' = IF acfDo THEN (acfPtr % SC) + 1 ELSE acfPtr
     /\ asamp' = IF acfDo THEN Append(asamp, x) ELSE asamp
     /\ lastX' = x /\ prevRel' = newRel /\ shownX' = (IF active THEN x ELSE shownX) /\ UNCHANGED active
     /\ quirk' = (quirk \/ (wantData /\ ~active /\ shownX # x))

InitWith(pp) == /\ p = pp /\ it = pp.start /\ rel = 0 /\ cont = FALSE /\ started = FALSE /\ runs = 1 /\ lastX = 0 /\ prevRel = -1
                /\ biasOn = FALSE /\ labelDue = TRUE /\ traj = <<>> /\ window = <<>> /\ ravg = <<>> /\ samples = <<>>
                /\ active = TRUE /\ shownX = 0 /\ quirk = FALSE
                /\ acfLists = [i \in 1..pp.cstride |-> <<>>] /\ acfPtr = 1 /\ acfN = 0 /\ acfSum = [k \in 1..(pp.clen + 1) |-> 0] /\ acfInit = FALSE /\ asamp = <<>>
Init == \E pp \in ParamSet : InitWith(pp)
First(x) == /\ ~started /\ started' = TRUE /\ rel' = 0 /\ cont' = FALSE /\ UNCHANGED <<it, runs, p, biasOn>> /\ Calc(x, it, 0, FALSE)
Step(x) == /\ started /\ it < p.start + MaxSteps /\ it' = it + 1 /\ rel' = rel + 1 /\ cont' = FALSE /\ UNCHANGED <<started, runs, p, biasOn>> /\ Calc(x, it + 1, rel + 1, FALSE)
NewRun == /\ started /\ runs < MaxRuns /\ runs' = runs + 1 /\ cont' = TRUE /\ UNCHANGED <<it, rel, started, p, biasOn>> /\ Calc(lastX, it, rel, TRUE)
\* a bias with an energy column is defined / deleted between two steps: the column set changes
ToggleBias == /\ started /\ p.toggle /\ ~labelDue /\ biasOn' = ~biasOn /\ labelDue' = TRUE
              /\ active' = ~biasOn      \* adding a bias (re)activates the variable, deleting its last bias deactivates it
              /\ UNCHANGED <<p, it, rel, cont, started, runs, lastX, prevRel, traj, window, ravg, samples, shownX, quirk, acfLists, acfPtr, acfN, acfSum, acfInit, asamp>>
Next == (\E x \in XS : First(x) \/ Step(x)) \/ NewRun \/ ToggleBias
Spec == Init /\ [][Next]_ovars

(***************************************************************************)
(* Properties                                                              *)
(***************************************************************************)
\* every data line has exactly the columns announced by the preceding label line
LastLabelBefore(i) == LET S0 == {j \in 1..(i - 1) : traj[j].k = "label"} IN IF S0 = {} THEN 0 ELSE CHOOSE j \in S0 : \A j2 \in S0 : j2 <= j
ColumnsOK == \A i \in 1..Len(traj) : traj[i].k = "data" => (LastLabelBefore(i) > 0 /\ traj[LastLabelBefore(i)].ncols = traj[i].ncols)
\* within a run exactly one line for each multiple of the frequency, in increasing order
DataIdx(r) == {i \in 1..Len(traj) : traj[i].k = "data" /\ traj[i].run = r}
OncePerRun == \A r \in 1..runs : \A i, j \in DataIdx(r) : i < j => traj[i].step < traj[j].step
MultiplesOnly == \A i \in 1..Len(traj) : traj[i].k = "data" => traj[i].step % F = 0
NoGap == (F > 0 /\ started /\ runs = 1) => Cardinality(DataIdx(1)) = Cardinality({s \in p.start..it : s % F = 0})
\* running average: line j is the mean / variance of the last L sampled values
RunAveOK == \A j \in 1..Len(ravg) :
              LET k == CHOOSE kk \in 1..Len(samples) : samples[kk].rel = ravg[j].step
                  vals == [i \in 1..L |-> samples[k - L + i].x]
              IN k >= L /\ ravg[j].n = L /\ ravg[j].sum = SumSeq(vals) /\ ravg[j].var = L * SumSq(vals) - SumSeq(vals) * SumSeq(vals)
\* the first column is the step at which the value held (outside the named deviation)
ValuesOK == ~quirk => \A i \in 1..Len(traj) : traj[i].k = "data" => TRUE
\* correlation function: frames are the processed values that have LC predecessors LC*SC ... SC steps back;
\* C(k) is the average over the frames of x(t) x(t - k SC)
Frames == {j \in 1..Len(asamp) : (j - 1) \div SC >= LC}
RECURSIVE SumFrames(_, _)
SumFrames(T, k) == IF T = {} THEN 0 ELSE LET j == CHOOSE jj \in T : TRUE IN asamp[j] * asamp[j - k * SC] + SumFrames(T \ {j}, k)
AcfOK == (LC > 0) => (acfN = Cardinality(Frames) /\ \A k \in 0..LC : acfSum[k + 1] = SumFrames(Frames, k))
\* each step is processed once, however the run is segmented
AcfOnce == (LC > 0 /\ started) => Len(asamp) = it - p.start
RunAveComplete == (L > 0) => Len(ravg) = (IF Len(samples) >= L THEN Len(samples) - L + 1 ELSE 0)
=============================================================================
