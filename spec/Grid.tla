-------------------------------- MODULE Grid --------------------------------
(***************************************************************************)
(* Assignment of samples to grid bins (C15): the histogram bias on one or  *)
(* two scalar variables, or on one vector variable gathered into a single  *)
(* histogram with per-element weights.                                     *)
(*                                                                         *)
(* Lattice: values are integers in units of half a length unit; a grid     *)
(* dimension has lower boundary lo, bin width w (both in those units) and  *)
(* n bins; bin i is [lo + i*w, lo + (i+1)*w).  A periodic variable wraps   *)
(* its own value into [lo, lo + n*w) before anybody sees it.               *)
(* Mechanism: the count array as updated by colvarbias_histogram::update   *)
(* (eligibility of the step, in-range test).  Property: over the history   *)
(* of values.                                                              *)
(***************************************************************************)
EXTENDS Integers, Sequences, FiniteSets, TLC

CONSTANTS VS,          \* lattice values a variable (or vector element) may take
          ParamSet, MaxSteps, MaxRuns

VARIABLES p, it, rel, cont, started, runs, lastV,
          count,       \* mechanism: [bin tuple -> accumulated weight]
          hist,        \* history: sequence of [v |-> tuple of values, elig |-> eligibility of the step]
          quirk
gvars == <<p, it, rel, cont, started, runs, lastV, count, hist, quirk>>

ND == Len(p.dims)
Dim(i) == p.dims[i]            \* [lo, w, n, periodic]
FloorDiv(a, b) == IF a >= 0 THEN a \div b ELSE -((b - 1 - a) \div b)
Wrap(i, v) == IF Dim(i).periodic THEN Dim(i).lo + ((v - Dim(i).lo) % (Dim(i).n * Dim(i).w)) ELSE v
BinOf(i, v) == FloorDiv(Wrap(i, v) - Dim(i).lo, Dim(i).w)
InRange(i, v) == BinOf(i, v) >= 0 /\ BinOf(i, v) < Dim(i).n
Bins == IF ND = 1 THEN {<<a>> : a \in 0..(Dim(1).n - 1)} ELSE {<<a, b>> : a \in 0..(Dim(1).n - 1), b \in 0..(Dim(2).n - 1)}
Vec == p.vec                   \* 0: scalar variables; K > 0: one vector variable with K elements gathered into a 1-D histogram
Weight(k) == p.weights[k]

\* value tuple of a step: scalars: one value per dimension; vector: K element values (ND = 1)
BinTuple(v) == [i \in 1..ND |-> BinOf(i, v[i])]
AllIn(v) == \A i \in 1..ND : InRange(i, v[i])

Eligible(newRel, newCont) == (newRel > 0 /\ ~newCont) \/ p.stepZero

Update(v, newRel, newCont) ==
  LET el == Eligible(newRel, newCont) IN
  IF Vec = 0
  THEN /\ count' = IF el /\ AllIn(v) THEN [count EXCEPT ![BinTuple(v)] = @ + 1] ELSE count
       /\ hist' = Append(hist, [v |-> v, elig |-> el, rep |-> newCont])
       /\ UNCHANGED quirk
  ELSE \* vector gathering: every element with its weight; the code does NOT test the eligibility of the step (known deviation)
       LET RECURSIVE Acc(_, _)
           Acc(c, k) == IF k > Vec THEN c
                        ELSE Acc(IF InRange(1, v[k]) THEN [c EXCEPT ![<<BinOf(1, v[k])>>] = @ + Weight(k)] ELSE c, k + 1)
       IN /\ count' = Acc(count, 1)
          /\ hist' = Append(hist, [v |-> v, elig |-> el, rep |-> newCont])
          /\ quirk' = IF ~el /\ (\E k \in 1..Vec : InRange(1, v[k])) THEN quirk \cup {"vector-histogram-ignores-eligibility"} ELSE quirk

InitWith(pp) == /\ p = pp /\ it = 0 /\ rel = 0 /\ cont = FALSE /\ started = FALSE /\ runs = 1 /\ lastV = <<>>
                /\ count = [b \in (IF Len(pp.dims) = 1 THEN {<<a>> : a \in 0..(pp.dims[1].n - 1)}
                                   ELSE {<<a, b2>> : a \in 0..(pp.dims[1].n - 1), b2 \in 0..(pp.dims[2].n - 1)}) |-> 0]
                /\ hist = <<>> /\ quirk = {}
Init == \E pp \in ParamSet : InitWith(pp)
Tuples == IF Vec > 0 THEN [1..Vec -> p.vs] ELSE [1..ND -> VS]     \* p.vs: values of the vector elements
First(v) == /\ ~started /\ started' = TRUE /\ rel' = 0 /\ cont' = FALSE /\ UNCHANGED <<it, runs, p>> /\ lastV' = v /\ Update(v, 0, FALSE)
Step(v) == /\ started /\ it < MaxSteps /\ it' = it + 1 /\ rel' = rel + 1 /\ cont' = FALSE /\ UNCHANGED <<started, runs, p>> /\ lastV' = v /\ Update(v, rel + 1, FALSE)
NewRun == /\ started /\ runs < MaxRuns /\ runs' = runs + 1 /\ cont' = TRUE /\ UNCHANGED <<it, rel, started, p, lastV>> /\ Update(lastV, rel, TRUE)
Next == (\E v \in Tuples : First(v) \/ Step(v)) \/ NewRun
Spec == Init /\ [][Next]_gvars

(***************************************************************************)
(* Property: each eligible in-range sample is in exactly one bin           *)
(***************************************************************************)
RECURSIVE SumW(_, _)
\* expected accumulated weight of bin b from the first n history entries
SumW(b, n) == IF n = 0 THEN 0
              ELSE (IF ~hist[n].elig THEN 0
                    ELSE IF Vec = 0 THEN (IF AllIn(hist[n].v) /\ BinTuple(hist[n].v) = b THEN 1 ELSE 0)
                    ELSE LET RECURSIVE S(_)
                             S(k) == IF k > Vec THEN 0 ELSE (IF InRange(1, hist[n].v[k]) /\ <<BinOf(1, hist[n].v[k])>> = b THEN Weight(k) ELSE 0) + S(k + 1)
                         IN S(1)) + SumW(b, n - 1)
CountsOK == (quirk = {}) => \A b \in Bins : count[b] = SumW(b, Len(hist))
\* the bin that contains a value is unique and is the half-open interval [lo + i w, lo + (i+1) w)
IntervalOK == \A i \in 1..ND : \A v \in VS : InRange(i, v) =>
                 LET b == BinOf(i, v) IN Dim(i).lo + b * Dim(i).w <= Wrap(i, v) /\ Wrap(i, v) < Dim(i).lo + (b + 1) * Dim(i).w
RECURSIVE Total(_)
Total(S) == IF S = {} THEN 0 ELSE LET b == CHOOSE x \in S : TRUE IN count[b] + Total(S \ {b})
TotalOK == (quirk = {} /\ Vec = 0) => Total(Bins) = Cardinality({n \in 1..Len(hist) : hist[n].elig /\ AllIn(hist[n].v)})
=============================================================================
