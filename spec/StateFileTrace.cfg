SPECIFICATION TSpec
CONSTANTS
  MaxWrites = 100000
  MaxCrashes = 100000
INVARIANTS Progress Report NoCrashOK FirstCrashOK
CHECK_DEADLOCK FALSE
