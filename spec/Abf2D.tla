------------------------------- MODULE Abf2D -------------------------------
(***************************************************************************)
(* Adaptive biasing force on TWO scalar variables (C04, multi-dimensional  *)
(* part).  Same structure as Abf.tla: mechanism variables follow           *)
(* colvarbias_abf::update(), update_system_force(), calc_biasing_force()   *)
(* and colvar::calc_colvar_properties(); the PROPERTY is stated over the   *)
(* history variables "phys" and "delivered" which the mechanism never      *)
(* reads.                                                                  *)
(*                                                                         *)
(* What is specific to more than one dimension, and modelled here:         *)
(*  - a sample is attributed to a BIN VECTOR; it is stored only when every *)
(*    component of that vector is inside its own range (one variable       *)
(*    outside suffices to drop the whole sample and to switch the bias off *)
(*    on BOTH variables);                                                  *)
(*  - the per-bin accumulator holds one force sum PER DIMENSION; the ramp  *)
(*    factor is a function of the bin's single count;                      *)
(*  - the cap (maxForce) is per dimension, with its own value;             *)
(*  - subtractAppliedForce is a flag of each VARIABLE: the correction of   *)
(*    the total force is done dimension by dimension;                      *)
(*  - no zero-mean correction (that is 1-D only), a periodic dimension     *)
(*    only wraps its own bin index;                                        *)
(*  - another bias may act on one of the two variables only.               *)
(*                                                                         *)
(* Lattice as in Abf.tla: each variable is identified with its bin index,  *)
(* forces are integers scaled by D.                                        *)
(***************************************************************************)
EXTENDS Integers, Sequences, FiniteSets, TLC

CONSTANTS NB1, NB2,    \* numbers of bins per dimension; values -1 and NB are outside
          XS1, XS2,    \* values offered to the two variables
          FS2,         \* set of system-force vectors <<f1, f2>> (unscaled integers)
          ParamSet, MaxSteps, MaxRuns, D

VARIABLE p
SameStep == p.sameStep
MinS == p.minS
FullS == p.fullS
Per == p.per           \* <<BOOLEAN, BOOLEAN>>: periodic dimensions
MaxF == p.maxF         \* <<m1, m2>> unscaled caps; <<0, 0>> = no cap
ApplyBias == p.applyBias
Sub == p.sub           \* <<BOOLEAN, BOOLEAN>>: subtractAppliedForce per variable
OtherF == p.otherF     \* <<o1, o2>> constant forces of other biases per variable (unscaled)
Dev == p.dev           \* TRUE: follow the code's named deviation "ZeroTotal" instead of the documented behaviour

VARIABLES it, rel, cont, started,
          lastX, lastSys, prevTotal, havePrev,
          samples, gsum,                \* samples: [Bins2 -> Nat]; gsum: [Bins2 -> <<Int, Int>>] scaled by D
          bin, forceBin, abfF,          \* pairs
          ft, fOld,                     \* pairs (scaled)
          phys, delivered, runs, quirk

mech == <<it, rel, cont, started, lastX, lastSys, prevTotal, havePrev, samples, gsum, bin, forceBin, abfF, ft, fOld>>
vars == <<mech, phys, delivered, runs, quirk, p>>

Dim == {1, 2}
NBv == <<NB1, NB2>>
Bins2 == (0..(NB1 - 1)) \X (0..(NB2 - 1))
InGrid(b) == b \in Bins2
Abs(n) == IF n < 0 THEN -n ELSE n
EDiv(a, b) == IF a % b = 0 THEN a \div b ELSE Assert(FALSE, <<"inexact division", a, b>>)
Zero2 == <<0, 0>>
Pair(F(_)) == <<F(1), F(2)>>

Ramp(cnt, g) ==
  IF cnt <= MinS THEN 0
  ELSE IF cnt < FullS THEN EDiv((cnt - MinS) * g, cnt * (FullS - MinS))
  ELSE EDiv(g, cnt)

Capped == MaxF # Zero2
Cap(i, f) == IF Capped /\ Abs(f) > MaxF[i] * D THEN (IF f > 0 THEN MaxF[i] * D ELSE -(MaxF[i] * D)) ELSE f

BiasForce(b, smp, gs) ==
  IF ApplyBias /\ InGrid(b)
  THEN LET F(i) == Cap(i, Ramp(smp[b], gs[b][i])) IN Pair(F)
  ELSE Zero2

Wrap(x) == LET W(i) == IF Per[i] THEN x[i] % NBv[i] ELSE x[i] IN Pair(W)

\* Named deviation "ZeroTotal" (known finding, see Abf.tla): decided per variable.
ZeroTotalApplies(newRel, deliver) ==
  \E i \in Dim : ~SameStep /\ Sub[i] /\ newRel > 0 /\ deliver /\ prevTotal[i] = 0 /\ fOld[i] # 0

Calc(xraw, sys, newRel, newCont, deliver) ==
  LET x == Wrap(xraw)
      measured == ~SameStep /\ newRel > 0 /\ deliver
      FtRaw(i) == IF SameStep THEN sys[i]
                  ELSE IF newRel > 0 THEN (IF deliver THEN prevTotal[i] ELSE 0) ELSE ft[i]
      Ft1(i) == IF Sub[i] /\ measured /\ ~(Dev /\ FtRaw(i) = 0) THEN FtRaw(i) - fOld[i] ELSE FtRaw(i)
      ft1 == Pair(Ft1)
      fb == IF SameStep THEN x ELSE forceBin
      canAcc == newRel > 0 /\ ~newCont
      doAcc == canAcc /\ InGrid(fb)
      Smpl(i) == IF Sub[i] \/ SameStep THEN ft1[i] ELSE ft1[i] - abfF[i]
      smp2 == IF doAcc THEN [samples EXCEPT ![fb] = @ + 1] ELSE samples
      gs2  == IF doAcc THEN [gsum EXCEPT ![fb] = <<@[1] - Smpl(1), @[2] - Smpl(2)>>] ELSE gsum
      newF == BiasForce(x, smp2, gs2)
      F(i) == newF[i] + OtherF[i] * D
      FO(i) == IF Sub[i] THEN F(i) ELSE fOld[i]
      PT(i) == sys[i] + F(i)
  IN /\ samples' = smp2 /\ gsum' = gs2
     /\ bin' = x /\ forceBin' = x /\ abfF' = newF
     /\ ft' = ft1 /\ fOld' = Pair(FO)
     /\ lastX' = xraw /\ lastSys' = sys
     /\ prevTotal' = Pair(PT) /\ havePrev' = TRUE
     /\ quirk' = (quirk \/ ZeroTotalApplies(newRel, deliver))

Blank == [bin |-> <<-2, -2>>, sys |-> Zero2, abf |-> Zero2, oth |-> Zero2]

InitWith(pp) ==
        /\ p = pp
        /\ it = 0 /\ rel = 0 /\ cont = FALSE /\ started = FALSE /\ runs = 1
        /\ lastX = Zero2 /\ lastSys = Zero2 /\ prevTotal = Zero2 /\ havePrev = FALSE
        /\ samples = [b \in Bins2 |-> 0] /\ gsum = [b \in Bins2 |-> Zero2]
        /\ bin = Zero2 /\ forceBin = Zero2 /\ abfF = Zero2 /\ ft = Zero2 /\ fOld = Zero2
        /\ phys = [s \in 0..MaxSteps |-> Blank]
        /\ delivered = {} /\ quirk = FALSE

Init == \E pp \in ParamSet : InitWith(pp)

Scaled(v) == <<v[1] * D, v[2] * D>>
Record(s, x, sys) == phys' = [phys EXCEPT ![s] = [bin |-> Wrap(x), sys |-> sys, abf |-> abfF', oth |-> Scaled(OtherF)]]

First(x, sys) ==
  /\ ~started /\ started' = TRUE /\ it' = it /\ rel' = 0 /\ cont' = FALSE /\ UNCHANGED runs
  /\ Calc(x, sys, 0, FALSE, FALSE)
  /\ Record(it, x, sys)
  /\ delivered' = {}

Step(x, sys) ==
  /\ started /\ it < MaxSteps /\ it' = it + 1 /\ rel' = rel + 1 /\ cont' = FALSE /\ UNCHANGED <<runs, started>>
  /\ Calc(x, sys, rel + 1, FALSE, havePrev)
  /\ Record(it + 1, x, sys)
  /\ delivered' = delivered \cup (IF SameStep THEN {it + 1} ELSE (IF havePrev THEN {it} ELSE {}))

NewRun ==
  /\ started /\ runs < MaxRuns /\ runs' = runs + 1 /\ it' = it /\ rel' = rel /\ cont' = TRUE /\ UNCHANGED started
  /\ Calc(lastX, lastSys, rel, TRUE, FALSE)
  /\ Record(it, lastX, lastSys)
  /\ UNCHANGED delivered

\* stop, save, fresh process, load, repeat the step: only samples and gsum persist
Restart ==
  /\ started /\ runs < MaxRuns /\ runs' = runs + 1 /\ UNCHANGED <<it, started>>
  /\ rel' = 0 /\ cont' = FALSE
  /\ LET x == Wrap(lastX)  sys == lastSys
         Ft1(i) == IF SameStep THEN sys[i] ELSE 0
         newF == BiasForce(x, samples, gsum)
         F(i) == newF[i] + OtherF[i] * D
         FO(i) == IF Sub[i] THEN F(i) ELSE 0
         PT(i) == sys[i] + F(i)
     IN /\ UNCHANGED <<samples, gsum>> /\ bin' = x /\ forceBin' = x /\ abfF' = newF
        /\ ft' = Pair(Ft1) /\ fOld' = Pair(FO)
        /\ prevTotal' = Pair(PT) /\ havePrev' = TRUE /\ UNCHANGED <<lastX, lastSys, quirk>>
  /\ Record(it, lastX, lastSys)
  /\ UNCHANGED delivered

Next == /\ UNCHANGED p
        /\ \/ \E x1 \in XS1, x2 \in XS2, f \in FS2 : First(<<x1, x2>>, Scaled(f)) \/ Step(<<x1, x2>>, Scaled(f))
           \/ NewRun \/ Restart
Spec == Init /\ [][Next]_vars

(***************************************************************************)
(* The property, over the history only: a delivered step s contributes one *)
(* sample to the bin vector phys[s].bin, whose component i is the system   *)
(* force on variable i plus - when the correction cannot remove them -     *)
(* the other biases' force on variable i.                                  *)
(***************************************************************************)
SampleOf(s, i) == phys[s].sys[i] + (IF Sub[i] \/ SameStep THEN 0 ELSE phys[s].oth[i])
RECURSIVE SumS(_, _)
SumS(S, i) == IF S = {} THEN 0 ELSE LET s == CHOOSE s \in S : TRUE IN SampleOf(s, i) + SumS(S \ {s}, i)
SamplesIn(b) == {s \in delivered : phys[s].bin = b}

CountExact == \A b \in Bins2 : samples[b] = Cardinality(SamplesIn(b))
SumExact == (Dev /\ quirk) \/ \A b \in Bins2 : \A i \in Dim : gsum[b][i] = -SumS(SamplesIn(b), i)
\* every delivered step whose bin vector has ONE component outside is dropped entirely
DroppedOutside == \A s \in delivered : (~InGrid(phys[s].bin)) => \A b \in Bins2 : s \notin SamplesIn(b)
AppliedOK == started => abfF = BiasForce(bin, samples, gsum)
OutsideZero == (started /\ ~InGrid(bin)) => abfF = Zero2
NoBiasZero == (~ApplyBias) => abfF = Zero2
CapOK == Capped => \A i \in Dim : Abs(abfF[i]) <= MaxF[i] * D
DeliveredOK == (~SameStep) => \A s \in delivered : s < it
\* the applied force is minus the ramped per-dimension mean of the samples of the CURRENT bin (uncapped case)
MeanOK == (~(Dev /\ quirk) /\ started /\ InGrid(bin) /\ ApplyBias /\ ~Capped /\ samples[bin] >= FullS /\ samples[bin] > MinS)
            => \A i \in Dim : abfF[i] * samples[bin] = -SumS(SamplesIn(bin), i)

TypeOK == /\ samples \in [Bins2 -> Nat] /\ bin \in (-1..NB1) \X (-1..NB2)

=============================================================================
