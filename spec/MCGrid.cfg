SPECIFICATION MCSpec
CONSTANTS
  VS <- VS_Q
  ParamSet <- PS_Q
  MaxSteps = 3
  MaxRuns = 2
  EmitLen = 4
INVARIANTS CountsOK IntervalOK TotalOK
\* vacuity: on
CHECK_DEADLOCK FALSE
