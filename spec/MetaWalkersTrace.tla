-------------------------- MODULE MetaWalkersTrace --------------------------
(* Interleaved executions of two real walker processes (the coordinator copies prefixes of the peer's files into the     *)
(* reader's view before each step) validated against MetaWalkers.tla: each event is one engine step of one walker with    *)
(* the view it was given, the hills it reported receiving, whether it re-read the peer's state file, its own hills file  *)
(* after the step and the bias energy (on the dyadic lattice, scaled by 2^16).                                            *)
EXTENDS MetaWalkers, Json, IOUtils
Trace == ndJsonDeserialize(IOEnv.TRACE)
VARIABLE l
tvars == <<it, first, own, buf, flushed, sstep, gen, mir, dup, cursor, cgen, insync, fstep, lastgot, missing, oldbuf, midwin, quirk, hist, l>>
Ev == Trace[l]
Pow2(n) == IF n = 0 THEN 1 ELSE IF n = 1 THEN 2 ELSE IF n = 4 THEN 16 ELSE IF n = 9 THEN 512 ELSE IF n = 16 THEN 65536 ELSE 0
\* energy x 2^16 at lattice position x of hills deposited at lattice positions pos[h]: 2^(-d^2) each, 0 beyond d = 4
HillE(d) == LET a == IF d < 0 THEN -d ELSE d IN IF a > 4 THEN 0 ELSE 65536 \div Pow2(a * a)
RECURSIVE SumE(_, _, _)
SumE(S, w, x) == IF S = {} THEN 0 ELSE LET h == CHOOSE y \in S : TRUE IN HillE(x - Ev.pos[w][h + 1]) + SumE(S \ {h}, w, x)
TReset == /\ l <= Len(Trace) /\ Ev.e = "Reset" /\ l' = l + 1
          /\ it' = [w \in Walkers |-> 0] /\ first' = [w \in Walkers |-> TRUE]
          /\ own' = [w \in Walkers |-> {}] /\ buf' = [w \in Walkers |-> <<>>] /\ flushed' = [w \in Walkers |-> 0]
          /\ sstep' = [w \in Walkers |-> 0] /\ gen' = [w \in Walkers |-> 0]
          /\ mir' = [w \in Walkers |-> {}] /\ dup' = [w \in Walkers |-> 0]
          /\ cursor' = [w \in Walkers |-> 0] /\ cgen' = [w \in Walkers |-> 0]
          /\ insync' = [w \in Walkers |-> FALSE] /\ fstep' = [w \in Walkers |-> 0]
          /\ lastgot' = [w \in Walkers |-> {}] /\ missing' = [w \in Walkers |-> {}] /\ quirk' = {} /\ hist' = <<>>
          /\ oldbuf' = [w \in Walkers |-> <<>>] /\ midwin' = [w \in Walkers |-> FALSE]
TStep == /\ l <= Len(Trace) /\ Ev.e = "Step" /\ l' = l + 1
         /\ Ev.t = it[Ev.w]
         /\ (Ev.view.stale => midwin[Peer(Ev.w)])
         /\ Ev.view.n <= (IF Ev.view.stale THEN Len(oldbuf[Peer(Ev.w)]) ELSE flushed[Peer(Ev.w)])
         \* the records the coordinator copied are the first n of the peer's modelled hills file, and the snapshot it copied is the modelled one
         /\ Ev.view.recs = SubSeq(IF Ev.view.stale THEN oldbuf[Peer(Ev.w)] ELSE buf[Peer(Ev.w)], 1, Ev.view.n)
         /\ Ev.view.sstep = sstep[Peer(Ev.w)]
         /\ Step(Ev.w, [n |-> Ev.view.n, partial |-> Ev.view.partial, stale |-> Ev.view.stale])
         \* observations: hills reported as received, the walker's own hills file, the energy
         \* (the log line "received a hill" is also printed, with a meaningless step number, for a record that the reader
         \* SKIPS because the snapshot already contains it; such records only exist in the old hills file, so with a stale
         \* view the reported list is not an observation of what was merged - the energy below is)
         /\ (~Ev.view.stale) => /\ {Ev.recv[i] : i \in 1..Len(Ev.recv)} = lastgot'[Ev.w]
                                /\ Len(Ev.recv) = Cardinality(lastgot'[Ev.w])
         /\ Ev.resync = (Ev.t % U = 0 /\ ~insync[Ev.w])
         \* a torn record at the end of the peer's hills file makes the reading step report an error (no bias is applied on
         \* that step); nothing else may: the error is only accepted with a partial view, and the data must still follow
         \* the mechanism (the complete records before the torn one are merged, the torn one is retried later)
         /\ (Ev.err # 0) => (Ev.view.partial /\ Ev.t % U = 0)
         /\ (Ev.err = 0) => Ev.E = SumE(own'[Ev.w], Ev.w, Ev.x) + SumE(mir'[Ev.w], Peer(Ev.w), Ev.x)
TRestart == /\ l <= Len(Trace) /\ Ev.e = "Restart" /\ l' = l + 1 /\ Restart(Ev.w)
TNext == TReset \/ TStep \/ TRestart
TInit == WInit /\ l = 1
TSpec == TInit /\ [][TNext]_tvars
Progress == PrintT(<<"MAXL", l>>) /\ ((\E w \in Walkers : missing[w] # {}) => PrintT(<<"MISSING", l, quirk, missing>>))
=============================================================================
