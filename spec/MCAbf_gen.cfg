SPECIFICATION MCSpec
CONSTANTS
  NB = 3
  FS <- FS_A
  ParamSet <- PS_Quick
  MaxSteps = 5
  MaxRuns = 2
  D = 2520
  EmitLen = 3
VIEW View
INVARIANTS Emit
CHECK_DEADLOCK FALSE
