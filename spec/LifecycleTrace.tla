-------------------------- MODULE LifecycleTrace --------------------------
EXTENDS Lifecycle, Json, IOUtils
TraceLog == ndJsonDeserialize(IOEnv.TRACE)
VARIABLE l
S(s) == {s[i] : i \in 1..Len(s)}
\* what the implementation lists after the call must be what the specification holds
Matches(e) == cvs' = S(e.cvs) /\ Dom(biases') = S(e.biases)
TInit == LInit /\ l = 1
TStep == /\ l <= Len(TraceLog) /\ l' = l + 1
         /\ LET e == TraceLog[l] IN
            \/ e.e = "Reset" /\ Reset
            \/ e.e = "addcv" /\ (IF e.rc = 0 THEN AddCv(e.name) ELSE Rejected) /\ Matches(e)
            \/ e.e = "addbias" /\ (IF e.rc = 0 THEN AddBias(e.name, S(e.on)) ELSE Rejected) /\ Matches(e)
            \/ e.e = "delbias" /\ DelBias(e.name) /\ Matches(e)
            \/ e.e = "delcv" /\ DelCv(e.name) /\ Matches(e)
            \/ e.e = "reset" /\ Reset /\ Matches(e)
            \/ e.e = "step" /\ UNCHANGED lvars /\ Matches(e)
TSpec == TInit /\ [][TStep]_<<lvars, l>>
Progress == PrintT(<<"MAXL", l>>)
=============================================================================
