SPECIFICATION TSpec
CONSTANTS
  ParamSet = {}
  Values = {}
  MaxArrivals = 1000
  MaxCount = 4
INVARIANTS Progress IncrementalEqualsBatch Solvable
CHECK_DEADLOCK FALSE
