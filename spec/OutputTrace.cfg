SPECIFICATION TSpec
CONSTANTS
  XS = {}
  ParamSet = {}
  MaxSteps = 100000
  MaxRuns = 100000
INVARIANTS Progress QuirkReport ColumnsOK OncePerRun MultiplesOnly RunAveOK RunAveComplete AcfOK AcfOnce
CHECK_DEADLOCK FALSE
