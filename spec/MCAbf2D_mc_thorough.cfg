SPECIFICATION MCSpec
CONSTANTS
  NB1 = 2
  NB2 = 2
  XS1 <- X1_A
  XS2 <- X2_A
  FS2 <- FS2_A
  ParamSet <- PS_Deep
  MaxSteps = 5
  MaxRuns = 2
  D = 2520
  EmitLen = 5
VIEW View
INVARIANTS TypeOK CountExact SumExact DroppedOutside AppliedOK OutsideZero NoBiasZero CapOK DeliveredOK MeanOK
CHECK_DEADLOCK FALSE
