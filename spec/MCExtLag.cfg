SPECIFICATION MCSpec
CONSTANTS
  XS <- XS_Q
  FB <- FB_Q
  RS <- RS_Q
  ParamSet <- PS_Q
  MaxSteps = 3
  MaxRuns = 2
  EmitLen = 4
VIEW View
INVARIANTS FollowsIntegrator AtomsFeelSpring Bounded NoDrift
\* vacuity: on
CHECK_DEADLOCK FALSE
