------------------------------ MODULE SmpTrace ------------------------------
(* Validation of the work-item / lock events recorded from the real module  *)
(* (through the engine simulator's smp_* overrides) against Smp.tla's        *)
(* discipline: per loop, every item starts once and ends once on the thread  *)
(* it was dispatched to, a thread runs one item at a time, the lock is held  *)
(* by at most one thread and by none when the loop returns.                  *)
EXTENDS Integers, Sequences, FiniteSets, TLC, Json, IOUtils
TraceLog == ndJsonDeserialize(IOEnv.TRACE)
VARIABLES l, running, done, lockHolder
tv == <<l, running, done, lockHolder>>
TInit == l = 1 /\ running = {} /\ done = {} /\ lockHolder = -1
TStep == /\ l <= Len(TraceLog) /\ l' = l + 1
         /\ LET e == TraceLog[l] IN
            \/ /\ e.e = "LoopBegin" /\ running = {} /\ lockHolder = -1
               /\ running' = {} /\ done' = {} /\ UNCHANGED lockHolder
            \/ /\ e.e = "ItemStart" /\ <<e.i, e.t>> \notin running /\ e.i \notin done
               /\ ~(\E r \in running : r[2] = e.t)                      \* the thread is free
               /\ running' = running \cup {<<e.i, e.t>>} /\ UNCHANGED <<done, lockHolder>>
            \/ /\ e.e = "ItemEnd" /\ <<e.i, e.t>> \in running
               /\ running' = running \ {<<e.i, e.t>>} /\ done' = done \cup {e.i} /\ UNCHANGED lockHolder
            \/ /\ e.e = "Lock" /\ lockHolder = -1 /\ lockHolder' = e.t /\ UNCHANGED <<running, done>>
            \/ /\ e.e = "Unlock" /\ lockHolder = e.t /\ lockHolder' = -1 /\ UNCHANGED <<running, done>>
            \/ /\ e.e = "LoopEnd" /\ running = {} /\ lockHolder = -1 /\ Cardinality(done) = e.n
               /\ UNCHANGED <<running, done, lockHolder>>
TSpec == TInit /\ [][TStep]_tv
Progress == PrintT(<<"MAXL", l>>)
=============================================================================
