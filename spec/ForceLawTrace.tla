--------------------------- MODULE ForceLawTrace ---------------------------
(* C01, part B.  Recorded probes of the real code: for a configuration (component type, group options, bias) and a geometry *)
(* the harness reports, for one atom and one direction d, the change of the energy handed to the engine between the          *)
(* positions displaced by +h d and -h d, and the force handed to the engine for that atom at the undisplaced geometry.       *)
(* The law F = -dE/dr reads  dE + 2 h (F . d) = 0  up to the truncation error of the central difference; all quantities are   *)
(* logged in units of 1e-9 (32-bit integers).  An atom the energy does not depend on must receive no force (dE = 0, F = 0),  *)
(* an atom it depends on must receive its force: both are instances of the same equation.                                    *)
EXTENDS Integers, Sequences, TLC, Json, IOUtils
Trace == ndJsonDeserialize(IOEnv.TRACE)
VARIABLE l
Abs(x) == IF x < 0 THEN -x ELSE x
Ev == Trace[l]
TInit == l = 1
TProbe == /\ l <= Len(Trace) /\ Ev.e = "Probe" /\ l' = l + 1
          /\ Abs(Ev.de + Ev.tf) <= Ev.tol
TNext == TProbe
TSpec == TInit /\ [][TNext]_l
Progress == PrintT(<<"MAXL", l>>)
=============================================================================
