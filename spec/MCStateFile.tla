---------------------------- MODULE MCStateFile ----------------------------
EXTENDS StateFile
\* vacuity witnesses: the check searches a state satisfying each Witness<i> (a violation of NoWitness<i>)
Witness1 == crashes = 1 /\ sinceCrash = 0 /\ everComplete
NoWitness1 == ~Witness1
Witness2 == writes >= 2
NoWitness2 == ~Witness2
MCInit == SFInit
MCSpec == MCInit /\ [][SFNext]_sfvars
=============================================================================
