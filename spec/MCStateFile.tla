---------------------------- MODULE MCStateFile ----------------------------
EXTENDS StateFile
WitInit == TLCSet(1, FALSE) /\ TLCSet(2, FALSE)
Wit == /\ ((crashes = 1 /\ sinceCrash = 0 /\ everComplete) => TLCSet(1, TRUE))
       /\ ((writes >= 2) => TLCSet(2, TRUE))
WitPost == TLCGet(1) /\ TLCGet(2)
MCInit == SFInit /\ WitInit
MCSpec == MCInit /\ [][SFNext]_sfvars
=============================================================================
