----------------------------- MODULE AbfShared -----------------------------
(***************************************************************************)
(* C14 (shared ABF).  W walkers accumulate (bin, force) samples            *)
(* independently and exchange them every Freq steps through walker 1.      *)
(*                                                                         *)
(* Mechanism (implementation-shaped, src/colvarbias_abf.cpp):              *)
(*   g[w]      what walker w uses to build its bias ("samples",            *)
(*             "gradients"): per bin [c |-> count, s |-> sum of forces]    *)
(*   last[w]   snapshot of g[w] at the end of the previous exchange        *)
(*   loc[w]    walker w's own accumulation ("local_samples/gradients")     *)
(* One engine step of walker w is                                          *)
(*   [share, if the step number is a positive multiple of Freq that is     *)
(*    later than the last exchange]  then  [accumulate the force delivered *)
(*    for the previous step's bin, except on the first step of a run].     *)
(* The exchange is a blocking collective:                                  *)
(*   Begin(w)    delta = g - last; loc += delta; walkers 2..W send delta   *)
(*   Collect     walker 1, once every delta has arrived: g += deltas,      *)
(*               broadcast g, last := g                                    *)
(*   Receive(w)  g := broadcast, last := g                                 *)
(* Restart(w) at an exchange boundary keeps g and loc (the saved state)    *)
(* and sets last := g.                                                     *)
(*                                                                         *)
(* Property (history-based): own[w] is everything walker w ever sampled,   *)
(* snap[w] the part of it sampled before w entered its latest exchange.    *)
(* Whenever w is not inside an exchange:                                   *)
(*     g[w]   = Sum_v snap[v] (as of w's latest exchange)                  *)
(*              + (own[w] - snap[w])          every sample exactly once    *)
(*     loc[w] = snap[w]                       own contribution recoverable *)
(***************************************************************************)
EXTENDS Integers, Sequences, FiniteSets, TLC

CONSTANTS W, NBins, Values, Freq, MaxSteps, MaxRestarts
VARIABLES g, last, loc,     \* mechanism
          stepno,           \* absolute step number of each walker's next engine step
          first,            \* TRUE: the next engine step is the first of a run (no accumulation)
          prevbin, prevv,   \* bin of the previous engine step and the force that acted there (delivered one step late)
          lastshare,        \* step of the latest exchange
          phase,            \* "idle" | "begun" (waiting inside the exchange) per walker
          pend,             \* the engine step in progress for a waiting walker: [b, v]
          msg,              \* msg[w]: delta sent by walker w to walker 1 (or "none"); bcast[w]: broadcast waiting for w
          bcast,
          own, snap, merged,\* history: own samples, snapshot at exchange entry, Sum of snaps as of the latest exchange
          quirk,            \* history: named deviations of the unchanged tree that became applicable
          restarts, hist
avars == <<g, last, loc, stepno, first, prevbin, prevv, lastshare, phase, pend, msg, bcast, own, snap, merged, quirk, restarts, hist>>

Walkers == 1..W
Bins == 0..(NBins - 1)
ZeroG == [b \in Bins |-> [c |-> 0, s |-> 0]]
Plus(x, y) == [b \in Bins |-> [c |-> x[b].c + y[b].c, s |-> x[b].s + y[b].s]]
Minus(x, y) == [b \in Bins |-> [c |-> x[b].c - y[b].c, s |-> x[b].s - y[b].s]]
AddSample(x, b, v) == [x EXCEPT ![b] = [c |-> @.c + 1, s |-> @.s + v]]
None == [none |-> TRUE]

RECURSIVE SumOver(_, _)
SumOver(f, S) == IF S = {} THEN ZeroG ELSE LET w == CHOOSE x \in S : TRUE IN Plus(f[w], SumOver(f, S \ {w}))

AInit ==
  /\ g = [w \in Walkers |-> ZeroG] /\ last = g /\ loc = g
  /\ stepno = [w \in Walkers |-> 0] /\ first = [w \in Walkers |-> TRUE]
  /\ prevbin = [w \in Walkers |-> 0] /\ prevv = [w \in Walkers |-> 0] /\ lastshare = [w \in Walkers |-> 0]
  /\ phase = [w \in Walkers |-> "idle"] /\ pend = [w \in Walkers |-> None]
  /\ msg = [w \in Walkers |-> None] /\ bcast = [w \in Walkers |-> None]
  /\ own = g /\ snap = g /\ merged = g
  /\ quirk = {} /\ restarts = 0 /\ hist = <<>>

Due(w) == stepno[w] > 0 /\ stepno[w] % Freq = 0 /\ stepno[w] > lastshare[w]

\* the accumulation part of an engine step of walker w presenting bin b where force v acts: the engine delivers the force
\* of the previous step, which is accumulated in the previous step's bin
Accumulate(w, b, v, gw) ==
  /\ g' = [g EXCEPT ![w] = IF first[w] THEN gw ELSE AddSample(gw, prevbin[w], prevv[w])]
  /\ own' = [own EXCEPT ![w] = IF first[w] THEN @ ELSE AddSample(@, prevbin[w], prevv[w])]
  /\ prevbin' = [prevbin EXCEPT ![w] = b]
  /\ prevv' = [prevv EXCEPT ![w] = v]
  /\ first' = [first EXCEPT ![w] = FALSE]
  /\ stepno' = [stepno EXCEPT ![w] = @ + 1]

\* an engine step without exchange
Step(w, b, v) ==
  /\ phase[w] = "idle" /\ ~Due(w) /\ stepno[w] < MaxSteps
  /\ Accumulate(w, b, v, g[w])
  /\ hist' = Append(hist, [a |-> "Step", w |-> w, b |-> b, v |-> v, done |-> TRUE])
  /\ UNCHANGED <<last, loc, lastshare, phase, pend, msg, bcast, snap, merged, quirk, restarts>>

\* an engine step that starts with the exchange: the walker blocks
Begin(w, b, v) ==
  /\ phase[w] = "idle" /\ Due(w) /\ stepno[w] < MaxSteps
  /\ LET delta == Minus(g[w], last[w]) IN
     /\ loc' = [loc EXCEPT ![w] = Plus(@, delta)]
     /\ last' = [last EXCEPT ![w] = delta]                 \* the code reuses last_* as the delta buffer
     /\ msg' = IF w = 1 THEN msg ELSE [msg EXCEPT ![w] = delta]
  /\ snap' = [snap EXCEPT ![w] = own[w]]
  /\ phase' = [phase EXCEPT ![w] = "begun"]
  /\ pend' = [pend EXCEPT ![w] = [b |-> b, v |-> v]]
  /\ hist' = Append(hist, [a |-> "Step", w |-> w, b |-> b, v |-> v, done |-> FALSE])
  /\ UNCHANGED <<g, stepno, first, prevbin, prevv, lastshare, bcast, own, merged, quirk, restarts>>

Finish(w, gw) ==
  /\ last' = [last EXCEPT ![w] = gw]
  /\ lastshare' = [lastshare EXCEPT ![w] = stepno[w]]
  /\ phase' = [phase EXCEPT ![w] = "idle"]
  /\ pend' = [pend EXCEPT ![w] = None]
  /\ Accumulate(w, pend[w].b, pend[w].v, gw)
  /\ hist' = Append(hist, [a |-> "Done", w |-> w, b |-> pend[w].b, v |-> pend[w].v, done |-> TRUE])

Collect ==
  /\ phase[1] = "begun" /\ \A w \in Walkers \ {1} : msg[w] # None
  /\ LET total == Plus(g[1], SumOver(msg, Walkers \ {1})) IN
     /\ bcast' = [w \in Walkers |-> IF w = 1 THEN None ELSE [d |-> total, h |-> SumOver(snap, Walkers)]]
     /\ msg' = [w \in Walkers |-> None]
     /\ merged' = [merged EXCEPT ![1] = SumOver(snap, Walkers)]
     /\ Finish(1, total)
  /\ UNCHANGED <<loc, snap, quirk, restarts>>

Receive(w) ==
  /\ w # 1 /\ phase[w] = "begun" /\ bcast[w] # None
  /\ bcast' = [bcast EXCEPT ![w] = None]
  /\ merged' = [merged EXCEPT ![w] = bcast[w].h]
  /\ Finish(w, bcast[w].d)
  /\ UNCHANGED <<loc, msg, snap, quirk, restarts>>

\* stop, save, restart at an exchange boundary: only g and loc survive; the first step of the new run repeats the step
Restart(w) ==
  /\ phase[w] = "idle" /\ restarts < MaxRestarts /\ ~first[w]
  /\ lastshare[w] = stepno[w] - 1 /\ lastshare[w] > 0       \* the run ended with the step that exchanged
  /\ restarts' = restarts + 1
  \* named deviation: samples accumulated after the latest exchange (the exchanging step itself accumulates one) are in g
  \* but not in last; "last := g" makes them invisible to every later delta: the peers never receive them and loc misses them
  /\ quirk' = IF g[w] # last[w] THEN quirk \cup {"restart-drops-unshared-samples"} ELSE quirk
  /\ last' = [last EXCEPT ![w] = g[w]]
  /\ first' = [first EXCEPT ![w] = TRUE]
  /\ stepno' = [stepno EXCEPT ![w] = @ - 1]
  /\ lastshare' = [lastshare EXCEPT ![w] = stepno[w] - 1]
  /\ hist' = Append(hist, [a |-> "Restart", w |-> w, b |-> 0, v |-> 0, done |-> TRUE])
  /\ UNCHANGED <<g, loc, prevbin, prevv, phase, pend, msg, bcast, own, snap, merged>>

ANext == \/ \E w \in Walkers, b \in Bins, v \in Values : Step(w, b, v) \/ Begin(w, b, v)
         \/ Collect
         \/ \E w \in Walkers : Receive(w) \/ Restart(w)
ASpec == AInit /\ [][ANext]_avars

---------------------------------------------------------------------------
Demanded(w) == Plus(merged[w], Minus(own[w], snap[w]))
ExactlyOnceFull == \A w \in Walkers : phase[w] = "idle" => g[w] = Demanded(w)
OwnRecoverableFull == \A w \in Walkers : phase[w] = "idle" => loc[w] = snap[w]
ExactlyOnce == quirk = {} => ExactlyOnceFull
OwnRecoverable == quirk = {} => OwnRecoverableFull
\* the deviation only ever loses samples, and only after a restart
QuirkScope == quirk # {} => restarts > 0
NeverTwice == \A w \in Walkers, b \in Bins : phase[w] = "idle" => g[w][b].c <= Demanded(w)[b].c
\* after an exchange in which everybody took part, all walkers that finished it hold the same data up to their own later samples
Agreement == \A w, v \in Walkers : (phase[w] = "idle" /\ phase[v] = "idle" /\ lastshare[w] = lastshare[v] /\ own[w] = snap[w] /\ own[v] = snap[v])
                                   => g[w] = g[v]
NoNegative == \A w \in Walkers, b \in Bins : g[w][b].c >= 0 /\ loc[w][b].c >= 0
=============================================================================
