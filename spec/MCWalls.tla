------------------------------ MODULE MCWalls ------------------------------
EXTENDS Walls, Json
VARIABLES c, x
Base(kd, per, w, k) == [kind |-> kd, periodic |-> per, w |-> w, k |-> k, c |-> 0, lo |-> 0, hi |-> 0, hasLo |-> FALSE, hasHi |-> FALSE, kLo |-> 1, kHi |-> 1]
Cases == { [Base("harmonic", per, w, k) EXCEPT !.c = cc] : per \in BOOLEAN, w \in {1, 2}, k \in {1, 3}, cc \in {-3, 0, 2} }
    \cup { [Base("linear", FALSE, w, k) EXCEPT !.c = cc] : w \in {1, 2}, k \in {1, 3}, cc \in {0, 2} }
    \cup { [Base("walls", FALSE, w, 1) EXCEPT !.lo = l, !.hi = h, !.hasLo = hl, !.hasHi = hh, !.kLo = kl, !.kHi = kh] :
             w \in {1, 2}, l \in {-2}, h \in {1, 3}, hl \in BOOLEAN, hh \in BOOLEAN, kl \in {1, 2}, kh \in {1, 3} }
    \cup { [Base("walls", TRUE, 1, 1) EXCEPT !.lo = l, !.hi = h, !.hasLo = TRUE, !.hasHi = TRUE, !.kLo = kl, !.kHi = kh] :
             l \in {-3, -1}, h \in {0, 1, 2}, kl \in {1, 2}, kh \in {1, 3} }
Valid(cc) == cc.kind = "walls" => (cc.hasLo \/ cc.hasHi) /\ cc.lo < cc.hi
Init == c \in {cc \in Cases : Valid(cc)} /\ x \in (-(Period \div 2))..(Period \div 2 - 1) \cup {-Period, Period - 1, Period + 2}
Next == UNCHANGED <<c, x>>
Spec == Init /\ [][Next]_<<c, x>>
NonNeg == c.kind # "linear" => Energy2(c, x) >= 0
PeriodicInv == c.periodic => Energy2(c, x) = Energy2(c, x + Period) /\ ForceWW(c, x) = ForceWW(c, x + Period)
BetweenWallsZero == (c.kind = "walls" /\ ~c.periodic /\ (~c.hasLo \/ x >= c.lo) /\ (~c.hasHi \/ x <= c.hi)) => Energy2(c, x) = 0 /\ ForceWW(c, x) = 0
\* force is minus the derivative: exact by the symmetric difference on a quadratic or linear piece
Smooth == (c.kind = "harmonic" /\ (~c.periodic \/ Abs(Diff(c, x)) < Period \div 2 - 1)) \/ c.kind = "linear"
Gradient == Smooth => (Energy2(c, x + 1) - Energy2(c, x - 1) = -4 * ForceWW(c, x))
\* in the periodic case the applicable wall is the closer one
ClosestWall == (c.kind = "walls" /\ c.periodic) =>
                 LET dl == Img(x - c.lo) du == Img(x - c.hi) IN
                 Energy2(c, x) \in {0, c.kLo * dl * dl, c.kHi * du * du} /\ Energy2(c, x) <= c.kLo * dl * dl + c.kHi * du * du
Emit == PrintT(<<"BEH", ToJson([c |-> c, x |-> x, e2 |-> Energy2(c, x), fww |-> ForceWW(c, x), period |-> Period])>>)
=============================================================================
