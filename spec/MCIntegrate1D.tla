--------------------------- MODULE MCIntegrate1D ---------------------------
(* One-dimensional free-energy surfaces (C16): every gradient sequence of length 1..MaxN over Values, both boundary   *)
(* conditions, two widths.  Values printed x n (the periodic correction is a mean over n bins).                        *)
EXTENDS Integers, Sequences, FiniteSets, TLC, Json
CONSTANTS MaxN
VARIABLES g, per, w
vars1 == <<g, per, w>>
Vals == {-2, 1, 3}
I == INSTANCE Integrate WITH p <- [n |-> <<1, 1>>, per |-> <<FALSE, FALSE>>, w |-> <<1, 1>>], grad <- <<>>, div <- <<>>, hist <- <<>>,
                             ParamSet <- {}, Values <- Vals, MaxArrivals <- 0, MaxCount <- 4
Init1 == /\ \E n \in 1..MaxN : g \in [1..n -> Vals]
         /\ per \in BOOLEAN /\ w \in {1, 2}
Spec1 == Init1 /\ [][FALSE]_vars1
F == I!Pmf1D(g, w, per)
\* consecutive differences are (gradient - correction) * width; a periodic surface closes; a non-periodic one ends at the total
Differences == \A k \in 1..(Len(F) - 1) : F[k + 1] - F[k] = w * (Len(g) * g[k] - (IF per THEN I!SeqSum(g, Len(g)) ELSE 0))
Closes == per => F[1] = 0 /\ F[Len(g)] + w * (Len(g) * g[Len(g)] - I!SeqSum(g, Len(g))) = F[1]
Ends == ~per => Len(F) = Len(g) + 1 /\ F[Len(F)] = w * Len(g) * I!SeqSum(g, Len(g))
Emit == PrintT(<<"BEH", ToJson([g |-> g, per |-> per, w |-> w, f |-> F])>>)
=============================================================================
