------------------------------- MODULE Meta -------------------------------
(***************************************************************************)
(* Metadynamics on one scalar variable (C05, and the metadynamics part of  *)
(* C03).  Mechanism variables follow colvarbias_meta: the hill list, the   *)
(* iterator to the first hill not yet projected, the off-grid list, the    *)
(* energy and gradient grids.  The PROPERTY is stated over the history     *)
(* "deposited" (every hill the schedule prescribes) and "tab" (which of    *)
(* them the documented schedule has tabulated), never read by the          *)
(* mechanism.                                                              *)
(*                                                                         *)
(* Lattice: positions are integers in units of half a bin; the grid covers *)
(* [0, 2*NB); bin b is [2b, 2b+2) with centre 2b+1.  Dyadic Gaussians:     *)
(* narrow hills (sigma = 0.4247 bin) have value 2^-(d*d) at lattice        *)
(* distance d, wide hills (sigma = 0.8493 bin, hillWidth 1.6986) have      *)
(* 2^-((d/2)^2) and are used on odd positions only (bin centres).  The     *)
(* code's cut-off (exponent > 23) falls at d >= 5 (resp. 10).  Energies    *)
(* are scaled by S = 2^16, forces are sums of d * G(d) (the harness        *)
(* multiplies by 4 ln 2 resp. ln 2).                                       *)
(*                                                                         *)
(* The mechanism reproduces four known deviations of the code; whenever    *)
(* one of them is applicable the history variable "quirk" records its      *)
(* name, and the property is asserted for behaviours with quirk = {}.      *)
(***************************************************************************)
EXTENDS Integers, Sequences, FiniteSets, TLC

CONSTANTS NB, XLo, XHi,   \* bins; range of lattice positions explored
          ParamSet, MaxSteps, MaxRuns

VARIABLES p,
          it, rel, cont, started, lastX, runs,
          hills,       \* sequence of [it, c]: hills in memory
          nb,          \* index of the first hill not yet projected (Len(hills)+1 = none)
          og,          \* hills kept for off-grid evaluation
          gE, gF,      \* grids: energy and force (minus gradient) at bin centres, scaled
          energy, force,
          deposited,   \* history: every hill prescribed by the schedule, as [it, c]
          tab,         \* history: number of leading entries of deposited that are tabulated
          quirk        \* history: names of the known deviations that were applicable so far

mech == <<it, rel, cont, started, lastX, runs, hills, nb, og, gE, gF, energy, force>>
vars == <<p, mech, deposited, tab, quirk>>

Wide == p.wide
HillFreq == p.hillFreq
GridFreq == p.gridFreq
UseGrids == p.useGrids
KeepHills == p.keepHills
HardLower == p.hardLower
Periodic == p.periodic

Bins == 0..(NB-1)
Period == 2 * NB
BinOf(P) == IF P >= 0 THEN P \div 2 ELSE -((1 - P) \div 2)        \* floor(P/2)
InGrid(P) == BinOf(P) \in Bins
Centre(b) == 2 * b + 1
Abs(n) == IF n < 0 THEN -n ELSE n

\* shortest-image difference for a periodic variable, in [-NB, NB)
Diff(a, b) == IF Periodic THEN ((a - b + NB) % Period) - NB ELSE a - b
\* the variable wraps its own value into [0, Period)
WrapX(P) == IF Periodic THEN P % Period ELSE P

GN(d) == LET a == Abs(d) IN
         CASE a = 0 -> 65536 [] a = 1 -> 32768 [] a = 2 -> 4096 [] a = 3 -> 128 [] a = 4 -> 1 [] OTHER -> 0
G(d) == IF Wide THEN (IF d % 2 = 0 THEN GN(d \div 2) ELSE Assert(FALSE, <<"wide hills on even distances only", d>>))
        ELSE GN(d)

RECURSIVE SumE(_, _, _)
SumE(hs, i, P) == IF i > Len(hs) THEN 0 ELSE G(Diff(P, hs[i].c)) + SumE(hs, i + 1, P)
RECURSIVE SumF(_, _, _)
SumF(hs, i, P) == IF i > Len(hs) THEN 0 ELSE Diff(P, hs[i].c) * G(Diff(P, hs[i].c)) + SumF(hs, i + 1, P)

\* colvar_grid::bin_distance_from_boundaries(centers, skip_hard = TRUE), in half bins; the code's
\* buffer is 3*floor(hillWidth)+1 bins: 4 bins for wide hills, 1 bin when hillWidth < 1 or when
\* gaussianSigmas is used
Buffer2 == IF Wide THEN 8 ELSE 2
MinDist2(c) == LET dl == c  du == Period - c IN
               IF HardLower THEN du ELSE (IF dl < du THEN dl ELSE du)
NearEdge(c) == (~Periodic) /\ MinDist2(c) < Buffer2

(***************************************************************************)
(* One update of the bias at position P.                                   *)
(***************************************************************************)
Update(Praw, newIt, newRel, newCont) ==
  LET P == WrapX(Praw)
      dep == (newIt % HillFreq = 0) /\ newRel > 0 /\ ~newCont
      h == [it |-> newIt, c |-> P]
      hills1 == IF dep THEN Append(hills, h) ELSE hills
      og1 == IF dep /\ UseGrids /\ NearEdge(P) THEN Append(og, h) ELSE og
      proj == UseGrids /\ (newIt % GridFreq = 0)
      gE1 == IF proj THEN [b \in Bins |-> gE[b] + SumE(hills1, nb, Centre(b))] ELSE gE
      gF1 == IF proj THEN [b \in Bins |-> gF[b] + SumF(hills1, nb, Centre(b))] ELSE gF
      hills2 == IF proj /\ ~KeepHills THEN <<>> ELSE hills1
      nb2 == IF proj THEN Len(hills2) + 1 ELSE nb
      onGrid == UseGrids /\ InGrid(P)
      e == (IF onGrid THEN gE1[BinOf(P)] ELSE IF UseGrids THEN SumE(og1, 1, P) ELSE 0) + SumE(hills2, nb2, P)
      f == (IF onGrid THEN gF1[BinOf(P)] ELSE IF UseGrids THEN SumF(og1, 1, P) ELSE 0) + SumF(hills2, nb2, P)
      dep1 == IF dep THEN Append(deposited, h) ELSE deposited
      \* documented tabulation schedule: at multiples of gridsUpdateFrequency every deposited hill is tabulated
      tab1 == IF proj THEN Len(dep1) ELSE tab
      \* ---- applicability of the known deviations at this look-up
      pendingInOg == \E i \in nb2..Len(hills2) : \E j \in 1..Len(og1) : og1[j] = hills2[i]
      dropped == \E i \in 1..tab1 : dep1[i] \notin {og1[j] : j \in 1..Len(og1)} /\ G(Diff(P, dep1[i].c)) # 0
      q1 == IF UseGrids /\ ~onGrid /\ pendingInOg THEN {"offgrid-double-count"} ELSE {}
      q2 == IF UseGrids /\ ~onGrid /\ dropped THEN {"offgrid-buffer"} ELSE {}
  IN /\ hills' = hills2 /\ nb' = nb2 /\ og' = og1 /\ gE' = gE1 /\ gF' = gF1
     /\ energy' = e /\ force' = f
     /\ deposited' = dep1 /\ tab' = tab1
     /\ quirk' = quirk \cup q1 \cup q2
     /\ lastX' = Praw

InitWith(pp) ==
  /\ p = pp
  /\ it = 0 /\ rel = 0 /\ cont = FALSE /\ started = FALSE /\ lastX = 0 /\ runs = 1
  /\ hills = <<>> /\ nb = 1 /\ og = <<>>
  /\ gE = [b \in Bins |-> 0] /\ gF = [b \in Bins |-> 0]
  /\ energy = 0 /\ force = 0
  /\ deposited = <<>> /\ tab = 0 /\ quirk = {}
Init == \E pp \in ParamSet : InitWith(pp)

First(P) == /\ ~started /\ started' = TRUE /\ it' = it /\ rel' = 0 /\ cont' = FALSE /\ UNCHANGED <<runs, p>>
            /\ Update(P, it, 0, FALSE)
Step(P) == /\ started /\ it < MaxSteps /\ it' = it + 1 /\ rel' = rel + 1 /\ cont' = FALSE /\ UNCHANGED <<runs, started, p>>
           /\ Update(P, it + 1, rel + 1, FALSE)
NewRun == /\ started /\ runs < MaxRuns /\ runs' = runs + 1 /\ cont' = TRUE /\ UNCHANGED <<it, rel, started, p>>
          /\ Update(lastX, it, rel, TRUE)

(* Stop, save, fresh instance, load, repeat the step.  Saving projects the pending hills.  What
   comes back: the grids; with keepHills every hill (re-classified for the off-grid list);
   otherwise NOTHING else - the hills written to the state (the off-grid ones, or all of them
   without grids) carry a step number not larger than the state's and are skipped by the reader
   (known deviations restart-offgrid-hills-lost / restart-nogrid-hills-lost). *)
Restart ==
  /\ started /\ runs < MaxRuns /\ runs' = runs + 1 /\ UNCHANGED <<it, started, p>>
  /\ rel' = 0 /\ cont' = FALSE
  /\ LET P == WrapX(lastX)
         gE1 == IF UseGrids THEN [b \in Bins |-> gE[b] + SumE(hills, nb, Centre(b))] ELSE gE
         gF1 == IF UseGrids THEN [b \in Bins |-> gF[b] + SumF(hills, nb, Centre(b))] ELSE gF
         saved == IF UseGrids /\ ~KeepHills THEN <<>> ELSE hills     \* hills in memory after the save
         kept == IF UseGrids /\ KeepHills THEN saved ELSE <<>>       \* hills that the reader accepts
         og1 == IF UseGrids /\ KeepHills THEN SelectSeq(kept, LAMBDA hh : NearEdge(hh.c)) ELSE <<>>
         nb2 == Len(kept) + 1
         onGrid == UseGrids /\ InGrid(P)
         e == (IF onGrid THEN gE1[BinOf(P)] ELSE IF UseGrids THEN SumE(og1, 1, P) ELSE 0)
         f == (IF onGrid THEN gF1[BinOf(P)] ELSE IF UseGrids THEN SumF(og1, 1, P) ELSE 0)
         tab1 == IF UseGrids THEN Len(deposited) ELSE tab
         lostOg == UseGrids /\ ~KeepHills /\ og # <<>>
         lostAll == ~UseGrids /\ hills # <<>>
         dropped == \E i \in 1..tab1 : deposited[i] \notin {og1[j] : j \in 1..Len(og1)} /\ G(Diff(P, deposited[i].c)) # 0
     IN /\ hills' = kept /\ nb' = nb2 /\ og' = og1 /\ gE' = gE1 /\ gF' = gF1
        /\ energy' = e /\ force' = f /\ tab' = tab1
        /\ quirk' = quirk \cup (IF lostOg THEN {"restart-offgrid-hills-lost"} ELSE {})
                          \cup (IF lostAll THEN {"restart-nogrid-hills-lost"} ELSE {})
                          \cup (IF UseGrids /\ ~onGrid /\ dropped /\ ~lostOg THEN {"offgrid-buffer"} ELSE {})
  /\ UNCHANGED <<deposited, lastX>>

Next == \/ \E P \in XLo..XHi : (p.wide => P % 2 = 1) /\ (First(P) \/ Step(P))
        \/ NewRun \/ Restart
Spec == Init /\ [][Next]_vars

(***************************************************************************)
(* The property, over the history only: the bias at the current position   *)
(* is the sum of the deposited hills - tabulated ones evaluated at the     *)
(* centre of the current bin when the position is on the grid, everything  *)
(* else analytically at the actual position.                               *)
(***************************************************************************)
Pos == WrapX(lastX)
RECURSIVE ExpE(_)
ExpE(i) == IF i > Len(deposited) THEN 0
           ELSE (IF UseGrids /\ i <= tab /\ InGrid(Pos) THEN G(Diff(Centre(BinOf(Pos)), deposited[i].c))
                 ELSE G(Diff(Pos, deposited[i].c))) + ExpE(i + 1)
RECURSIVE ExpF(_)
ExpF(i) == IF i > Len(deposited) THEN 0
           ELSE (IF UseGrids /\ i <= tab /\ InGrid(Pos)
                 THEN Diff(Centre(BinOf(Pos)), deposited[i].c) * G(Diff(Centre(BinOf(Pos)), deposited[i].c))
                 ELSE Diff(Pos, deposited[i].c) * G(Diff(Pos, deposited[i].c))) + ExpF(i + 1)

EnergyIsSumOfHills == (started /\ quirk = {}) => (energy = ExpE(1) /\ force = ExpF(1))

\* one hill at every eligible multiple of newHillFrequency, each exactly once
EligibleSteps == {s \in 1..it : s % HillFreq = 0}
ScheduleOK == /\ Len(deposited) <= Cardinality(EligibleSteps)
              /\ \A i, j \in 1..Len(deposited) : i < j => deposited[i].it < deposited[j].it
              /\ \A i \in 1..Len(deposited) : deposited[i].it % HillFreq = 0
\* without run boundaries nothing is skipped
ScheduleExact == (runs = 1) => Len(deposited) = Cardinality(EligibleSteps)

\* the deviations can only arise in the circumstances they are named after
QuirkScope == /\ ("offgrid-double-count" \in quirk => GridFreq > HillFreq \/ runs > 1)
              /\ ("offgrid-buffer" \in quirk => UseGrids /\ ~Periodic)
              /\ (("restart-offgrid-hills-lost" \in quirk \/ "restart-nogrid-hills-lost" \in quirk) => runs > 1)
              \* (with a hard lower boundary the buffer test ignores that side: a value presented below it - which a hard
              \*  boundary is meant to exclude - can meet the buffer deviation even for wide hills)
              /\ ((Wide /\ ~HardLower /\ runs = 1 /\ GridFreq = HillFreq) => quirk = {})
              /\ ((Periodic /\ runs = 1 /\ GridFreq = HillFreq) => quirk = {})
=============================================================================
