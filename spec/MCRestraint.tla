---------------------------- MODULE MCRestraint ----------------------------
EXTENDS Restraint, Json
CONSTANTS EmitLen
VARIABLE hist

P(kd, n, ns, eq, ex, w, c0, c1, k0, k1) ==
  [kind |-> kd, n |-> n, ns |-> ns, equil |-> eq, exp |-> ex, dec |-> FALSE, work |-> w, c0 |-> c0, c1 |-> c1, k0 |-> k0, k1 |-> k1]
PS_Quick == { P("fixed", 1, 1, 0, 1, FALSE, 1, 1, 2, 2),
              P("cmove", 2, 1, 0, 1, TRUE, 0, 4, 1, 1), P("cmove", 3, 1, 0, 1, TRUE, 3, 0, 2, 2),
              P("cstage", 2, 2, 0, 1, FALSE, 0, 4, 1, 1), P("cstage", 3, 1, 0, 1, FALSE, 1, 2, 2, 2),
              P("kmove", 2, 1, 0, 1, TRUE, 1, 1, 0, 2), P("kmove", 2, 1, 0, 2, TRUE, 1, 1, 1, 5), P("kmove", 3, 1, 0, 1, FALSE, 0, 0, 3, 0),
              P("kstage", 2, 2, 0, 1, FALSE, 1, 1, 0, 2), P("kstage", 2, 2, 1, 1, FALSE, 1, 1, 0, 2), P("kstage", 3, 1, 2, 2, FALSE, 0, 0, 1, 3),
              P("kstage", 2, 2, 0, 2, FALSE, 0, 0, 0, 4) }
XS_Q == {-1, 0, 2}

Rec(a, x) == [a |-> a, x |-> x, it |-> it', cen |-> cen', k |-> k', stage |-> stage', work |-> work', e |-> energy', f |-> force',
              ti |-> tiout', q |-> quirk', ce |-> CenAt(it'), ke |-> KAt(it'), we |-> ExpWork', tie |-> ExpTI']
\* vacuity witnesses: the check searches a state satisfying each Witness<i> (a violation of NoWitness<i>)
Witness1 == quirk = {} /\ work # 0
NoWitness1 == ~Witness1
Witness2 == quirk = {} /\ tiout # <<>>
NoWitness2 == ~Witness2
Witness3 == quirk = {} /\ runs > 1 /\ it > 1
NoWitness3 == ~Witness3
Witness4 == quirk # {}
NoWitness4 == ~Witness4
MCInit == Init /\ hist = <<>>
MCNext == /\ Len(hist) < EmitLen
          /\ \/ \E x \in XS : First(x) /\ hist' = Append(hist, Rec("First", x))
             \/ \E x \in XS : Step(x) /\ hist' = Append(hist, Rec("Step", x))
             \/ NewRun /\ hist' = Append(hist, Rec("NewRun", lastX))
             \/ Restart /\ hist' = Append(hist, Rec("Restart", lastX))
MCSpec == MCInit /\ [][MCNext]_<<vars, hist>>
View == vars
Emit == (Len(hist) = EmitLen) => PrintT(<<"BEH", ToJson([p |-> p, ks |-> KS, acts |-> hist])>>)
=============================================================================
