SPECIFICATION MCSpec
CONSTANTS
  ScalarMax = 3
  PeriodicMax = 9
INVARIANTS EuclidMetric PeriodicMetric WrapOK AngularTable UnitMetric QuatMetric Emit
\* vacuity: on
CHECK_DEADLOCK FALSE
