SPECIFICATION RFSpec
CONSTANTS
  MaxWrites = 4
  MaxCrashes = 3
INVARIANTS AlwaysPublished
CHECK_DEADLOCK FALSE
\* vacuity: on
