SPECIFICATION MCSpec
CONSTANTS
  NB = 6
  XLo <- XLoSim
  XHi = 15
  ParamSet <- PS_Quick
  MaxSteps = 10
  MaxRuns = 3
  EmitLen = 10
INVARIANTS Emit EnergyIsSumOfHills ScheduleOK ScheduleExact QuirkScope
CHECK_DEADLOCK FALSE
