SPECIFICATION MCSpec
CONSTANTS
  NB = 5
  XLo <- XLoDef
  XHi = 12
  ParamSet <- PS_Quick
  MaxSteps = 5
  MaxRuns = 3
  EmitLen = 6
VIEW View
INVARIANTS EnergyIsSumOfHills ScheduleOK ScheduleExact QuirkScope
\* vacuity: on
CHECK_DEADLOCK FALSE
