SPECIFICATION MCSpec
CONSTANTS
  MaxAttempts = 2
  MaxSettings = 2
INVARIANTS Emit
CHECK_DEADLOCK FALSE
