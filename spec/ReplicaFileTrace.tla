------------------------- MODULE ReplicaFileTrace -------------------------
(* File operations recorded from a real walker on its published state file (and the temporary file), real process deaths *)
(* at each of them, and the observation of what a peer would find under the published name.                             *)
EXTENDS ReplicaFile, Json, IOUtils, Sequences
TraceLog == ndJsonDeserialize(IOEnv.TRACE)
VARIABLE l
TInit == RFInit /\ l = 1
TStep == /\ l <= Len(TraceLog) /\ l' = l + 1
         /\ LET e == TraceLog[l] IN
            \/ e.e = "Reset" /\ dir' = [n \in RNames |-> "absent"] /\ pc' = "idle" /\ writes' = 0 /\ crashes' = 0 /\ published' = FALSE
            \/ e.e = "remove" /\ e.n = "tmp" /\ RmTmp
            \/ e.e = "remove" /\ e.n = "state" /\ Unlink("state")
            \/ e.e = "open" /\ OpenTmp
            \/ e.e = "write" /\ WriteTmp
            \/ e.e = "close" /\ CloseTmp
            \/ e.e = "rename" /\ Publish
            \/ e.e = "crash" /\ (IF pc = "idle" THEN UNCHANGED rfvars ELSE RCrash)
            \/ e.e = "peer" /\ UNCHANGED rfvars /\ ((e.ok = 1) <=> (dir["state"] = "complete"))
TSpec == TInit /\ [][TStep]_<<rfvars, l>>
Progress == PrintT(<<"MAXL", l>>)
=============================================================================
