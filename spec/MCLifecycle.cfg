SPECIFICATION LSpec
CONSTANTS
  CvNames = {"v1", "v2"}
  BiasNames = {"b1", "b2", "b3"}
INVARIANTS NoDangling
CHECK_DEADLOCK FALSE
