----------------------------- MODULE CorrTrace -----------------------------
(* Validation of the correlation-function files written by the real module *)
(* for vector-valued variables against Corr.tla.                           *)
EXTENDS Corr, Json, IOUtils
TraceLog == ndJsonDeserialize(IOEnv.TRACE)
VARIABLE l
Matches(e) ==
  /\ (e.acfn >= 0 => (acfN' = e.acfn /\ \A k \in 1..(LC + 1) : acfSum'[k] = e.acfs[k]))
  /\ (e.acfn = -2 => acfN' = 0)            \* no file although the step was due: no frame may exist yet
  /\ (e.hasv => vel' = <<e.v[1], e.v[2], e.v[3]>>)
ResetTo(pp) == /\ p' = pp /\ it' = 0 /\ rel' = 0 /\ started' = FALSE /\ runs' = 1 /\ lastX' = Zero3 /\ prevRel' = -1
               /\ xOld' = Zero3 /\ vel' = Zero3
               /\ acfLists' = [i \in 1..pp.cstride |-> <<>>] /\ acfPtr' = 1 /\ acfN' = 0
               /\ acfSum' = [k \in 1..(pp.clen + 1) |-> 0] /\ acfInit' = FALSE /\ asamp' = <<>> /\ xhist' = <<>>
V(e) == <<e.x[1], e.x[2], e.x[3]>>
TInit == l = 2 /\ InitWith(TraceLog[1].p)
TStep == /\ l <= Len(TraceLog) /\ l' = l + 1
         /\ LET e == TraceLog[l] IN
            \/ e.e = "Reset" /\ ResetTo(e.p)
            \/ e.e = "First" /\ First(V(e)) /\ Matches(e)
            \/ e.e = "Step" /\ Step(V(e)) /\ Matches(e)
            \/ e.e = "NewRun" /\ NewRun /\ Matches(e)
TSpec == TInit /\ [][TStep]_<<cvars, l>>
Progress == PrintT(<<"MAXL", l>>) /\ ((started /\ Cross /\ acfN >= 1 /\ ~CrossTextbook) => PrintT(<<"QUIRK", "cross-correlation-of-other-variable-only", l>>))
=============================================================================
