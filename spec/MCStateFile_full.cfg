SPECIFICATION MCSpec
CONSTANTS
  MaxWrites = 5
  MaxCrashes = 3
INVARIANTS SomeComplete
CHECK_DEADLOCK FALSE
