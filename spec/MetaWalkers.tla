---------------------------- MODULE MetaWalkers ----------------------------
(***************************************************************************)
(* C14 (multiple-walker metadynamics).  Two walkers; each deposits one     *)
(* hill per step (identified by its step number), publishes them through   *)
(* files and reads the peer's files every U steps.                         *)
(*                                                                         *)
(* Files of walker v (src/colvarbias_meta.cpp):                            *)
(*   state file   complete snapshot, replaced by temp+rename every R steps *)
(*                (write_state_to_replicas): all hills with step <= sstep  *)
(*   hills file   buffer of the hills deposited since the last snapshot,   *)
(*                removed and recreated at every snapshot, flushed at the  *)
(*                walker's own exchange steps                               *)
(* Reader w keeps for the peer: mir (hills merged so far), cursor          *)
(* (records consumed in the hills file), insync (state file read),         *)
(* fstep (step of the state file read: older records are skipped).         *)
(* insync is reset only by the reader's OWN snapshot (the peer's state     *)
(* file keeps its name), so after the peer recreates its hills file the    *)
(* reader's cursor refers to the old file until the reader's next          *)
(* snapshot: records are of equal length, so the reader resumes at the     *)
(* same record index of the new file (named deviation "stale-cursor").     *)
(*                                                                         *)
(* The environment chooses what the reader sees of the peer's files: a     *)
(* prefix of the flushed records, possibly ending inside a record, and     *)
(* either the current or the previous snapshot (View).                     *)
(*                                                                         *)
(* Property: mir never holds a hill twice and never a hill the peer did    *)
(* not deposit (ExactlyOnce); after an exchange with a complete view,      *)
(* outside the named deviation, mir holds every hill the peer had          *)
(* published (Complete); the reader's own hills are never affected         *)
(* (OwnUntouched).                                                         *)
(***************************************************************************)
EXTENDS Integers, Sequences, FiniteSets, TLC

CONSTANTS U, R, MaxSteps, MaxRestarts
VARIABLES it,        \* next step number of each walker
          first,     \* first step of a run: no hill
          own,       \* set of steps at which the walker deposited a hill
          buf,       \* sequence of hills in the current hills file
          flushed,   \* how many of them are on disk
          sstep,     \* step of the latest snapshot (-1: the initial, empty one written at set-up has step 0)
          gen,       \* generation of the hills file (number of snapshots)
          mir, dup,  \* reader: merged peer hills; number of hills merged twice
          cursor, cgen, insync, fstep,
          lastgot,   \* hills taken from the peer's hills file by the latest step (observation)
          missing,   \* history: hills the peer had published that the walker still lacks after its latest exchange with a complete view
          oldbuf,    \* the hills file that the walker's latest snapshot removed (its records at the time it was closed)
          midwin,    \* the walker's latest action was a snapshot: a reader may run between the rename of the new state file
                     \* and the removal of the old hills file, i.e. see the NEW snapshot together with the OLD hills file
          quirk, hist
wvars == <<it, first, own, buf, flushed, sstep, gen, mir, dup, cursor, cgen, insync, fstep, lastgot, missing, oldbuf, midwin, quirk, hist>>

Walkers == {1, 2}
Peer(w) == 3 - w
SeqSet(s) == {s[i] : i \in 1..Len(s)}

WInit == /\ it = [w \in Walkers |-> 0] /\ first = [w \in Walkers |-> TRUE]
         /\ own = [w \in Walkers |-> {}] /\ buf = [w \in Walkers |-> <<>>] /\ flushed = [w \in Walkers |-> 0]
         /\ sstep = [w \in Walkers |-> 0] /\ gen = [w \in Walkers |-> 0]
         /\ mir = [w \in Walkers |-> {}] /\ dup = [w \in Walkers |-> 0]
         /\ cursor = [w \in Walkers |-> 0] /\ cgen = [w \in Walkers |-> 0]
         /\ insync = [w \in Walkers |-> FALSE] /\ fstep = [w \in Walkers |-> 0]
         /\ lastgot = [w \in Walkers |-> {}] /\ missing = [w \in Walkers |-> {}] /\ quirk = {} /\ hist = <<>>
         /\ oldbuf = [w \in Walkers |-> <<>>] /\ midwin = [w \in Walkers |-> FALSE]

\* what reader w may be shown of peer v: n complete records (n <= flushed), whether a partial record follows,
\* and which snapshot: the current one, or (torn copy) the current hills file with the previous snapshot is not modelled
\* stale = TRUE: the window inside the peer's snapshot (write_state_to_replicas: temp file, rename over the state file, THEN
\* close + remove + recreate the hills file): the new snapshot with a prefix of the old hills file, whose records up to and
\* including the snapshot's own step are already contained in the snapshot
Views(v) == [n : 0..flushed[v], partial : BOOLEAN, stale : {FALSE}]
            \cup (IF midwin[v] THEN [n : 0..Len(oldbuf[v]), partial : BOOLEAN, stale : {TRUE}] ELSE {})
FileOf(v, view) == IF view.stale THEN oldbuf[v] ELSE buf[v]
WholeFile(v, view) == view.n = (IF view.stale THEN Len(oldbuf[v]) ELSE flushed[v])

\* the exchange part of walker w's step, given the view of the peer's files.  As in read_replica_files(): a successful
\* re-read of the peer's state file replaces the merged hills by the snapshot but does NOT rewind the cursor (the rewind
\* is tied to a FAILED state read), and the cursor is never rewound when the peer recreates its hills file.
Exchange(w, view, newflushed) ==
  LET v == Peer(w)
      resync == ~insync[w]
      base == IF resync THEN {h \in own[v] : h <= sstep[v]} ELSE mir[w]
      fs == IF resync THEN sstep[v] ELSE fstep[w]
      cur == cursor[w]
      recs == SubSeq(FileOf(v, view), 1, view.n)
      fresh == IF cur >= Len(recs) THEN <<>> ELSE SubSeq(recs, cur + 1, Len(recs))
      got == {h \in SeqSet(fresh) : h > fs}
      skipped == {recs[i] : i \in 1..(IF cur < Len(recs) THEN cur ELSE Len(recs))}
      lost == {h \in skipped : h > fs /\ h \notin base}
  IN /\ mir' = [mir EXCEPT ![w] = base \cup got]
     /\ lastgot' = [lastgot EXCEPT ![w] = got]
     /\ missing' = [missing EXCEPT ![w] = IF WholeFile(v, view) /\ ~view.partial
                                           THEN ({h \in own[v] : h <= sstep[v]} \cup SeqSet(SubSeq(buf[v], 1, flushed[v]))) \ (base \cup got)
                                           ELSE {}]
     /\ dup' = [dup EXCEPT ![w] = @ + Cardinality(got \cap base)]
     /\ fstep' = [fstep EXCEPT ![w] = fs]
     /\ cursor' = [cursor EXCEPT ![w] = IF Len(recs) >= cur THEN Len(recs) ELSE cur]
     /\ cgen' = [cgen EXCEPT ![w] = gen[v]]
     \* second named deviation: the peer replaced its snapshot (same file name) after the walker read it; the walker keeps
     \* believing it is in sync, so the hills that moved from the peer's hills file into the new snapshot are invisible to
     \* it until its own next snapshot forces a re-read
     /\ quirk' = quirk \cup (IF lost # {} THEN {"cursor-not-rewound"} ELSE {})
                       \cup (IF ~resync /\ sstep[v] > fstep[w] THEN {"newer-snapshot-not-read"} ELSE {})

Step(w, view) ==
  /\ it[w] < MaxSteps
  /\ LET t == it[w]
         dep == ~first[w]
         share == t % U = 0
         snapshot == R > 0 /\ ~first[w] /\ t % R = 0
         newbuf == IF dep THEN Append(buf[w], t) ELSE buf[w]
     IN /\ own' = [own EXCEPT ![w] = IF dep THEN @ \cup {t} ELSE @]
        /\ IF share THEN Exchange(w, view, Len(newbuf))
                    ELSE UNCHANGED <<mir, dup, fstep, cursor, cgen, quirk, missing>> /\ lastgot' = [lastgot EXCEPT ![w] = {}]
        \* the walker's own snapshot schedules a re-read of the peer's state file (after this step's exchange)
        /\ insync' = [insync EXCEPT ![w] = IF snapshot THEN FALSE ELSE IF share THEN TRUE ELSE @]
        \* the walker's own snapshot at the end of the step
        /\ midwin' = [midwin EXCEPT ![w] = snapshot]
        /\ oldbuf' = [oldbuf EXCEPT ![w] = IF snapshot THEN newbuf ELSE @]
        /\ IF snapshot
             THEN /\ sstep' = [sstep EXCEPT ![w] = t] /\ gen' = [gen EXCEPT ![w] = @ + 1]
                  /\ buf' = [buf EXCEPT ![w] = <<>>] /\ flushed' = [flushed EXCEPT ![w] = 0]
             ELSE /\ UNCHANGED <<sstep, gen>>
                  /\ buf' = [buf EXCEPT ![w] = newbuf]
                  /\ flushed' = [flushed EXCEPT ![w] = IF share THEN Len(newbuf) ELSE @]
        /\ it' = [it EXCEPT ![w] = t + 1] /\ first' = [first EXCEPT ![w] = FALSE]
        /\ hist' = Append(hist, [w |-> w, t |-> t, view |-> view])
\* stop, save the module state, start a new process, load the state and set up the output: the walker publishes a fresh
\* snapshot of everything it has deposited, recreates its hills file, forgets what it had merged from the peer (it will
\* re-read the peer's snapshot at its next exchange) and repeats its last step without depositing
Restart(w) ==
  /\ ~first[w] /\ it[w] > 0 /\ MaxRestarts > 0 /\ Len(SelectSeq(hist, LAMBDA h : h.t = -1)) < MaxRestarts
  /\ it' = [it EXCEPT ![w] = @ - 1] /\ first' = [first EXCEPT ![w] = TRUE]
  /\ sstep' = [sstep EXCEPT ![w] = it[w] - 1] /\ gen' = [gen EXCEPT ![w] = @ + 1]
  /\ buf' = [buf EXCEPT ![w] = <<>>] /\ flushed' = [flushed EXCEPT ![w] = 0]
  /\ mir' = [mir EXCEPT ![w] = {}] /\ cursor' = [cursor EXCEPT ![w] = 0] /\ cgen' = [cgen EXCEPT ![w] = 0]
  /\ insync' = [insync EXCEPT ![w] = FALSE] /\ fstep' = [fstep EXCEPT ![w] = 0]
  /\ lastgot' = [lastgot EXCEPT ![w] = {}] /\ missing' = [missing EXCEPT ![w] = {}]
  /\ oldbuf' = [oldbuf EXCEPT ![w] = buf[w]] /\ midwin' = [midwin EXCEPT ![w] = TRUE]
  /\ hist' = Append(hist, [w |-> w, t |-> -1, view |-> [n |-> 0, partial |-> FALSE, stale |-> FALSE]])
  /\ UNCHANGED <<own, dup, quirk>>
WNext == \/ \E w \in Walkers : \E view \in Views(Peer(w)) : Step(w, view)
         \/ \E w \in Walkers : Restart(w)
WSpec == WInit /\ [][WNext]_wvars

\* a complete view: everything the peer has flushed, no torn record
CompleteView(w, view) == WholeFile(Peer(w), view) /\ ~view.partial
\* after an exchange that saw everything the peer had published, nothing published is missing
CompleteFull == \A w \in Walkers : missing[w] = {}
Complete == quirk = {} => CompleteFull
\* the deviation needs a cursor that is ahead of the file it is applied to: the peer recreated its hills file, or the
\* walker replaced the merged hills by a snapshot; both only happen after a snapshot
QuirkScope == quirk # {} => \E w \in Walkers : gen[w] > 0
ExactlyOnce == \A w \in Walkers : dup[w] = 0 /\ mir[w] \subseteq own[Peer(w)]
\* what the exchange of walker w's latest step received (for trace validation and the Complete property)
Received(w) == mir[w]
\* hills the peer has made visible: its snapshot plus the flushed part of its hills file
Published(v) == {h \in own[v] : h <= sstep[v]} \cup SeqSet(SubSeq(buf[v], 1, flushed[v]))
=============================================================================
