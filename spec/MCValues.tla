------------------------------ MODULE MCValues ------------------------------
EXTENDS Values, Json
G(a, b, c, d, e) == <<a, b, c, d, e>>
Geoms_Q == { G(<<0, 0, 0>>, <<2, 0, 1>>, <<0, 3, 0>>, <<1, 1, 2>>, <<4, 4, 4>>),
             G(<<1, -1, 0>>, <<-2, 0, 2>>, <<0, 1, 3>>, <<3, 2, -1>>, <<-4, 0, 1>>),
             G(<<0, 0, 0>>, <<1, 0, 0>>, <<1, 1, 0>>, <<1, 1, 1>>, <<0, 5, 0>>),
             G(<<2, 1, 0>>, <<0, 0, 1>>, <<-1, 2, 2>>, <<0, -2, 1>>, <<3, 3, 0>>) }
Masses_Q == { <<1, 1, 1, 1, 1>>, <<1, 3, 2, 2, 1>>, <<12, 16, 1, 14, 1>> }
Cell_Q == <<9, 10, 12>>
Emit == ~base.set \/ PrintT(<<"BEH", ToJson([geo |-> geo, m |-> m, rot |-> rot, tr |-> tr, shiftB |-> shiftB, listing |-> listing,
                                            pos |-> [a \in 1..5 |-> IF a = 5 THEN Add3(Apply(rot, geo[5]), tr) ELSE Pos(a)],
                                            ma |-> MA, mb |-> MB, vals |-> Vals, cell |-> Cell])>>)
Witness1 == base.set /\ rot # Identity /\ base.dih.y0 # 0 /\ base.d2 # 0
NoWitness1 == ~Witness1
Witness2 == shiftB # <<0, 0, 0>> /\ MinDist2 # Dist2
NoWitness2 == ~Witness2
=============================================================================
