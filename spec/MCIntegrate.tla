---------------------------- MODULE MCIntegrate ----------------------------
EXTENDS Integrate, Json
CONSTANTS EmitLen
Sh(n, per, w) == [n |-> n, per |-> per, w |-> w]
PS_Q == { Sh(<<2, 2>>, <<FALSE, FALSE>>, <<1, 1>>), Sh(<<2, 3>>, <<TRUE, FALSE>>, <<1, 2>>), Sh(<<3, 2>>, <<FALSE, TRUE>>, <<2, 1>>),
          Sh(<<2, 2>>, <<TRUE, TRUE>>, <<1, 1>>), Sh(<<2, 2, 2>>, <<FALSE, TRUE, FALSE>>, <<1, 1, 2>>) }
PS_T == PS_Q \cup { Sh(<<3, 3>>, <<FALSE, FALSE>>, <<1, 2>>), Sh(<<3, 3>>, <<TRUE, TRUE>>, <<2, 1>>), Sh(<<1, 3>>, <<TRUE, FALSE>>, <<1, 1>>),
                    Sh(<<2, 2, 2>>, <<TRUE, TRUE, TRUE>>, <<1, 1, 1>>), Sh(<<3, 2, 2>>, <<FALSE, FALSE, TRUE>>, <<1, 2, 1>>), Sh(<<2, 2, 2>>, <<FALSE, FALSE, FALSE>>, <<2, 1, 1>>) }
VS_Q == {-2, 3}
VS_T == {-2, 1, 3}
MCInit == IInit
MCNext == INext
MCSpec == MCInit /\ [][MCNext]_ivars
\* the operator itself: every column of the Laplacian (x 2^(d-1) x (w_1...w_d)^2) for the shape
Matrix == {[q |-> q, r |-> r, v |-> Lap(UnitAt(q), r)] : q \in Points, r \in Points}
Emit == (Len(hist) = EmitLen) => PrintT(<<"BEH", ToJson([p |-> p, hist |-> hist, div |-> {[pt |-> pt, v |-> div[pt]] : pt \in Points}, ds |-> DS,
                                                         lap |-> IF hist = <<>> THEN {x \in Matrix : x.v # 0} ELSE {}])>>)
Witness1 == \E b \in Bins : grad[b].cnt >= 3
NoWitness1 == ~Witness1
Witness2 == \E pt \in Points : div[pt] # 0 /\ \E i \in Dims : p.per[i] /\ pt[i] = 0
NoWitness2 == ~Witness2
Witness3 == ND = 3 /\ Len(hist) >= 2
NoWitness3 == ~Witness3
=============================================================================
