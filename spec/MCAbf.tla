------------------------------ MODULE MCAbf ------------------------------
EXTENDS Abf, Json

CONSTANTS EmitLen

VARIABLE hist

Params(same, sz, mn, fl, per, mf, ab, sub, oth) ==
  [sameStep |-> same, stepZero |-> sz, minS |-> mn, fullS |-> fl, periodic |-> per, maxF |-> mf,
   applyBias |-> ab, subtract |-> sub, otherF |-> oth]

\* quick: the cross product that matters (timing x subtract x other bias x ramp), plus single-feature variations
PS_Core == { Params(same, FALSE, r[1], r[2], FALSE, 0, TRUE, sub, oth) :
               same \in BOOLEAN, sub \in BOOLEAN, oth \in {0, -2}, r \in {<<0, 1>>, <<1, 3>>} }
PS_Feat == { Params(same, sz, 0, 1, per, mf, ab, FALSE, 0) :
               same \in BOOLEAN, sz \in BOOLEAN, per \in BOOLEAN, mf \in {0, 1}, ab \in BOOLEAN }
PS_Quick == { q \in PS_Core \cup PS_Feat : q.stepZero => q.sameStep }
FS_A == {-1, 2}
FS_B == {-2, 0, 3}
PS_One == { Params(FALSE, FALSE, 0, 1, FALSE, 0, TRUE, FALSE, 0) }

Rec(a, x, f) == [a |-> a, x |-> x, f |-> f, it |-> it', s |-> samples', g |-> gsum', F |-> abfF', ft |-> ft', q |-> quirk']

\* vacuity witnesses (registers set when the antecedent of an implication-shaped invariant held)

\* vacuity witnesses: the check searches a state satisfying each Witness<i> (a violation of NoWitness<i>)
Witness1 == \E b \in Bins : samples[b] >= 2
NoWitness1 == ~Witness1
Witness2 == started /\ ~InGrid(bin)
NoWitness2 == ~Witness2
Witness3 == abfF # 0
NoWitness3 == ~Witness3
Witness4 == runs > 1
NoWitness4 == ~Witness4
MCInit == Init /\ hist = <<>>
MCNext == /\ Len(hist) < EmitLen
          /\ UNCHANGED p
          /\ \/ \E x \in XS, f \in FS : First(x, f * D) /\ hist' = Append(hist, Rec("First", x, f))
             \/ \E x \in XS, f \in FS : Step(x, f * D) /\ hist' = Append(hist, Rec("Step", x, f))
             \/ NewRun /\ hist' = Append(hist, Rec("NewRun", lastX, lastSys \div D))
             \/ Restart /\ hist' = Append(hist, Rec("Restart", lastX, lastSys \div D))
MCSpec == MCInit /\ [][MCNext]_<<vars, hist>>

View == vars

Emit == (Len(hist) = EmitLen) => PrintT(<<"BEH", ToJson([p |-> p, nb |-> NB, d |-> D, acts |-> hist])>>)

=============================================================================
