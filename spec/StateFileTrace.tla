--------------------------- MODULE StateFileTrace ---------------------------
(* The file operations recorded from the real module during state writes must *)
(* be a run of the protocol; events: backup (ren = 1 if the file existed and  *)
(* was renamed), open, write, close, crash (the process was killed here),     *)
(* and the observation "load" of what a fresh process finds loadable.         *)
EXTENDS StateFile, Json, IOUtils
TraceLog == ndJsonDeserialize(IOEnv.TRACE)
VARIABLE l
Loadable(n) == dir[n] = "complete"
TInit == SFInit /\ l = 1
TStep == /\ l <= Len(TraceLog) /\ l' = l + 1
         /\ LET e == TraceLog[l] IN
            \/ e.e = "Reset" /\ dir' = [n \in Names |-> "absent"] /\ pc' = "idle" /\ writes' = 0 /\ crashes' = 0
                             /\ everComplete' = FALSE /\ sinceCrash' = 0
            \/ e.e = "backup" /\ Backup /\ ((e.ren = 1) <=> (dir["state"] # "absent"))
            \/ e.e = "open" /\ Open
            \/ e.e = "write" /\ WriteSome
            \/ e.e = "close" /\ Close
            \/ e.e = "crash" /\ (IF pc = "idle" THEN UNCHANGED sfvars ELSE Crash)   \* a process killed between two writes changes nothing
            \* observation by a fresh process: which of the two files the real loader accepts
            \/ e.e = "load" /\ UNCHANGED sfvars
                            /\ ((e.state = 1) <=> Loadable("state")) /\ ((e.old = 1) <=> Loadable("old"))
TSpec == TInit /\ [][TStep]_<<sfvars, l>>
Progress == PrintT(<<"MAXL", l>>)
\* report where the recorded history has no complete state on disk (known deviation when after a crash)
Report == (~SomeComplete) => PrintT(<<"NOCOMPLETE", l, crashes, sinceCrash>>)
=============================================================================
