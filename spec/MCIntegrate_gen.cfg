SPECIFICATION MCSpec
CONSTANTS
  ParamSet <- PS_Q
  Values <- VS_Q
  MaxArrivals = 2
  MaxCount = 4
  EmitLen = 2
INVARIANTS Emit
CHECK_DEADLOCK FALSE
