SPECIFICATION MCSpec
CONSTANTS
  MaxAttempts = 1
  MaxSettings = 1
INVARIANTS Emit
\* vacuity: on
CHECK_DEADLOCK FALSE
