SPECIFICATION FSpec
CONSTANTS
  ParamSet <- PS_OK
  ZS <- ZS_Q
  XS <- XS_Q
INVARIANTS GroupsExact ForceIsMinusGradient NoNetForce Emit
\* vacuity: on
CHECK_DEADLOCK FALSE
