------------------------------- MODULE MCCorr -------------------------------
EXTENDS Corr
PC(kind, ct, cl, cs) == [kind |-> kind, ctype |-> ct, clen |-> cl, cstride |-> cs, cross |-> FALSE]
PX(kind, ct, cl, cs) == [kind |-> kind, ctype |-> ct, clen |-> cl, cstride |-> cs, cross |-> TRUE]
PS_Q == { PC("vec", "coor", 2, 1), PC("vec", "p2", 1, 2), PC("vec", "p2", 2, 1), PC("vec", "vel", 1, 1), PC("vec", "vel", 2, 2),
          PC("unit", "coor", 1, 2), PC("unit", "p2", 2, 1), PC("scalar", "vel", 2, 1), PC("scalar", "vel", 1, 2),
          PX("vec", "coor", 2, 1), PX("vec", "p2", 1, 1), PX("unit", "coor", 1, 2) }
VS_Q == { <<1, 2, 2>>, <<2, -2, 1>>, <<2, 4, 4>>, <<0, -6, 0>> }
VS_T == { <<1, 2, 2>>, <<2, -2, 1>>, <<2, 4, 4>>, <<0, -6, 0>>, <<-2, 1, 2>>, <<0, 0, 3>> }
Witness1 == acfN >= 2 /\ runs > 1
NoWitness1 == ~Witness1
Witness2 == acfN >= 1 /\ p.ctype = "p2" /\ \E k \in 2..(p.clen + 1) : acfSum[k] < 0
NoWitness2 == ~Witness2
Witness3 == acfN >= 1 /\ p.ctype = "vel" /\ p.cstride = 2
NoWitness3 == ~Witness3
\* the named deviation is real: a reachable state where the code's sums differ from the textbook cross correlation
Witness4 == p.cross /\ acfN >= 1 /\ ~CrossTextbook
NoWitness4 == ~Witness4
MCSpec == Init /\ [][Next]_cvars
=============================================================================
