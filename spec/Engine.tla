------------------------------- MODULE Engine -------------------------------
(***************************************************************************)
(* Module-level pipeline of one step (colvarmodule::calc) for biases on    *)
(* one scalar variable, with the dependency engine (Deps.tla, REAL tables) *)
(* deciding which objects are active: multiple-time-step biases are put to *)
(* sleep / woken up through the "awake" feature, which holds the only      *)
(* reference to "active".  Three module instances run in lock-step on the  *)
(* same positions: AB (both biases), A alone, B alone (C08).               *)
(*                                                                         *)
(* Bias kinds: harmonic (k, c): 2U = k (x-c)^2, f = -k (x-c);              *)
(* linear (k): U = k x, f = -k; histogram: no energy, no force.            *)
(***************************************************************************)
EXTENDS RealTables

CONSTANTS Menu,      \* set of bias descriptions [kind, k, c, tsf]
          ZS,        \* positions
          Starts,    \* possible first steps of the modules (a run may begin at any step)
          MaxLen

VARIABLES it, started, pair, wAB, wA, wB, xAB, xA, xB, outs, firstStep
evars == <<it, started, pair, wAB, wA, wB, xAB, xA, xB, outs, firstStep>>

APPLY == 3       \* f_cvb_apply_force
CVAPPLY == 2     \* f_cv_apply_force
Bias1 == 101
Bias2 == 102

CreateOps(kind) == Macros.creates[kind]
NewWorld(bs) ==   \* bs: sequence of <<object id, description>>
  LET RECURSIVE Add(_, _)
      Add(w, i) == IF i > Len(bs) THEN w
                   ELSE Add(ApplyOps(W([w.fs EXCEPT ![bs[i][1]] = FreshBiasOf(bs[i][2].kind)], w.ch), CreateOps(bs[i][2].kind), 1, bs[i][1]), i + 1)
  IN Add(W(BaseFs, BaseCh), 1)

\* colvarmodule::calc_colvars(): wake up / put to sleep
ToggleB(w, b, d, step) ==
  IF d.tsf > 1 THEN (IF step % d.tsf = 0 THEN Enable(w, b, AWAKE, FALSE, TRUE, FALSE).w ELSE Disable(w, b, AWAKE).w) ELSE w

E2(d, x) == CASE d.kind = "harmonic" -> d.k * (x - d.c) * (x - d.c) [] d.kind = "linear" -> 2 * d.k * x [] OTHER -> 0
F(d, x) == CASE d.kind = "harmonic" -> -(d.k * (x - d.c)) [] d.kind = "linear" -> -(d.k) [] OTHER -> 0

\* one step of a module holding the biases bs (sequence of <<id, description>>)
CalcModule(w, bs, xStale, z, step) ==
  LET RECURSIVE Tog(_, _)
      Tog(ww, i) == IF i > Len(bs) THEN ww ELSE Tog(ToggleB(ww, bs[i][1], bs[i][2], step), i + 1)
      w1 == Tog(w, 1)
      vact == w1.fs[V][0].en
      x == IF vact THEN z ELSE xStale
      act(i) == w1.fs[bs[i][1]][0].en
      RECURSIVE SumE(_)
      SumE(i) == IF i > Len(bs) THEN 0 ELSE (IF act(i) THEN E2(bs[i][2], x) ELSE 0) + SumE(i + 1)
      RECURSIVE SumF(_)
      SumF(i) == IF i > Len(bs) THEN 0
                 ELSE (IF act(i) /\ w1.fs[bs[i][1]][APPLY].en THEN bs[i][2].tsf * F(bs[i][2], x) ELSE 0) + SumF(i + 1)
      canApply == vact /\ w1.fs[V][CVAPPLY].en
      \* a bias that wants to apply a force to a variable whose apply_force is off raises an error
      err == \E i \in 1..Len(bs) : act(i) /\ w1.fs[bs[i][1]][APPLY].en /\ F(bs[i][2], x) # 0 /\ ~w1.fs[V][CVAPPLY].en
  IN [w |-> w1, x |-> x,
      out |-> [e2 |-> SumE(1), f |-> IF canApply THEN SumF(1) ELSE 0, vact |-> vact, err |-> err,
               act |-> [i \in 1..Len(bs) |-> act(i)]]]

Init == /\ pair \in {<<a, b>> : a \in Menu, b \in Menu}
        /\ firstStep \in Starts /\ it = firstStep /\ started = FALSE
        /\ wAB = NewWorld(<< <<Bias1, pair[1]>>, <<Bias2, pair[2]>> >>)
        /\ wA = NewWorld(<< <<Bias1, pair[1]>> >>)
        /\ wB = NewWorld(<< <<Bias2, pair[2]>> >>)
        /\ xAB = 0 /\ xA = 0 /\ xB = 0 /\ outs = <<>>

Step(z) ==
  /\ Len(outs) < MaxLen
  /\ LET t == IF started THEN it + 1 ELSE it
         rAB == CalcModule(wAB, << <<Bias1, pair[1]>>, <<Bias2, pair[2]>> >>, xAB, z, t)
         rA == CalcModule(wA, << <<Bias1, pair[1]>> >>, xA, z, t)
         rB == CalcModule(wB, << <<Bias2, pair[2]>> >>, xB, z, t)
     IN /\ wAB' = rAB.w /\ wA' = rA.w /\ wB' = rB.w
        /\ xAB' = rAB.x /\ xA' = rA.x /\ xB' = rB.x
        /\ outs' = Append(outs, [t |-> t, z |-> z, AB |-> rAB.out, A |-> rA.out, B |-> rB.out])
        /\ it' = t
  /\ started' = TRUE /\ UNCHANGED <<pair, firstStep>>
Next == \E z \in ZS : Step(z)
Spec == Init /\ [][Next]_evars

(***************************************************************************)
(* Properties                                                              *)
(***************************************************************************)
\* known deviation: a module whose first step is not a multiple of a bias's time-step factor evaluates that
\* bias until its first wake-up (awake starts disabled, so putting it to sleep is a no-op and "active" stays on)
Woken(d) == \E i \in 1..(Len(outs) - 1) : outs[i].t % d.tsf = 0
BeforeFirstWake(d) == d.tsf > 1 /\ firstStep % d.tsf # 0 /\ ~Woken(d)
Last == outs[Len(outs)]
\* forces and energies superpose
Superpose == (outs # <<>>) => (Last.AB.e2 = Last.A.e2 + Last.B.e2 /\ Last.AB.f = Last.A.f + Last.B.f /\ ~Last.AB.err /\ ~Last.A.err /\ ~Last.B.err)
\* a bias with time-step factor n is evaluated only on multiples of n ...
OnSchedule(d, o) == (d.tsf > 1 /\ Last.t % d.tsf # 0 /\ ~BeforeFirstWake(d)) => (o.e2 = 0 /\ o.f = 0)
Schedule == (outs # <<>>) => (OnSchedule(pair[1], Last.A) /\ OnSchedule(pair[2], Last.B))
\* the full statement (violated by the unchanged tree when a run starts off the schedule)
OnScheduleFull(d, o) == (d.tsf > 1 /\ Last.t % d.tsf # 0) => (o.e2 = 0 /\ o.f = 0)
ScheduleFull == (outs # <<>>) => (OnScheduleFull(pair[1], Last.A) /\ OnScheduleFull(pair[2], Last.B))
\* ... and then applies n times its instantaneous force, with its instantaneous energy
Impulse(d, o) == (Last.t % d.tsf = 0) => (o.e2 = E2(d, Last.z) /\ o.f = d.tsf * F(d, Last.z))
Scaling == (outs # <<>>) => (Impulse(pair[1], Last.A) /\ Impulse(pair[2], Last.B))
\* non-biasing biases contribute nothing
NonBiasing == (outs # <<>>) => ((pair[1].kind = "histogram" => Last.A.e2 = 0 /\ Last.A.f = 0) /\ (pair[2].kind = "histogram" => Last.B.e2 = 0 /\ Last.B.f = 0))
=============================================================================
