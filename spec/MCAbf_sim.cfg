SPECIFICATION MCSpec
CONSTANTS
  NB = 4
  FS <- FS_B
  ParamSet <- PS_Quick
  MaxSteps = 9
  MaxRuns = 3
  D = 10080
  EmitLen = 9
INVARIANTS Emit CountOK CountExact SumExact AppliedOK OutsideZero NoBiasZero CapOK
CHECK_DEADLOCK FALSE
