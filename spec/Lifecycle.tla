----------------------------- MODULE Lifecycle -----------------------------
(* Run-time definition and deletion of variables and biases (C13, C20):     *)
(* the set of objects the module holds after any sequence of operations.    *)
(* Deleting a variable cascades to every bias defined on it; reset removes  *)
(* everything; a rejected definition leaves the sets unchanged (C10).       *)
EXTENDS Integers, Sequences, FiniteSets, TLC

CONSTANTS CvNames, BiasNames
VARIABLES cvs,      \* set of defined variable names
          biases    \* function: defined bias name -> set of variables it acts on
lvars == <<cvs, biases>>

LInit == cvs = {} /\ biases = << >>
Dom(f) == DOMAIN f
AddCv(v) == /\ v \notin cvs /\ cvs' = cvs \cup {v} /\ UNCHANGED biases
AddBias(b, on) == /\ b \notin Dom(biases) /\ on # {} /\ on \subseteq cvs
                  /\ biases' = [x \in Dom(biases) \cup {b} |-> IF x = b THEN on ELSE biases[x]]
                  /\ UNCHANGED cvs
Rejected == UNCHANGED lvars
DelBias(b) == /\ b \in Dom(biases)
              /\ biases' = [x \in Dom(biases) \ {b} |-> biases[x]] /\ UNCHANGED cvs
DelCv(v) == /\ v \in cvs /\ cvs' = cvs \ {v}
            /\ biases' = [x \in {y \in Dom(biases) : v \notin biases[y]} |-> biases[x]]
Reset == cvs' = {} /\ biases' = << >>
LNext == \/ \E v \in CvNames : AddCv(v) \/ DelCv(v)
         \/ \E b \in BiasNames, on \in SUBSET CvNames : AddBias(b, on)
         \/ \E b \in BiasNames : DelBias(b)
         \/ Reset
LSpec == LInit /\ [][LNext]_lvars

\* no bias refers to a variable that does not exist
NoDangling == \A b \in Dom(biases) : biases[b] \subseteq cvs /\ biases[b] # {}
=============================================================================
