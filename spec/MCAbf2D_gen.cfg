SPECIFICATION MCSpec
CONSTANTS
  NB1 = 2
  NB2 = 2
  XS1 <- X1_A
  XS2 <- X2_A
  FS2 <- FS2_One
  ParamSet <- PS_Quick
  MaxSteps = 5
  MaxRuns = 2
  D = 2520
  EmitLen = 3
VIEW View
INVARIANTS Emit
CHECK_DEADLOCK FALSE
