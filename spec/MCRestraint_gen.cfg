SPECIFICATION MCSpec
CONSTANTS
  XS <- XS_Q
  ParamSet <- PS_Quick
  MaxSteps = 7
  MaxRuns = 2
  EmitLen = 5
VIEW View
INVARIANTS Emit
CHECK_DEADLOCK FALSE
