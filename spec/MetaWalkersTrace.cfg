SPECIFICATION TSpec
CONSTANTS
  U = 2
  R = 4
  MaxSteps = 1000
  MaxRestarts = 1000
INVARIANTS Progress ExactlyOnce
CHECK_DEADLOCK FALSE
