----------------------------- MODULE StateFile -----------------------------
(***************************************************************************)
(* Replacement protocol of the state file (C11): colvarmodule::            *)
(* write_restart_file() -> colvarproxy_io::output_stream() ->              *)
(* backup_file(): if the file exists it is renamed to "<name>.old", then   *)
(* the file is opened (truncated), written and closed.  A process may die  *)
(* between any two file operations and inside a write; a new process then  *)
(* starts writing again (possibly after loading whatever is on disk).      *)
(*                                                                         *)
(* The directory maps the two names to "absent" | "empty" | "partial" |    *)
(* "complete".                                                             *)
(***************************************************************************)
EXTENDS Integers, Sequences, FiniteSets, TLC

CONSTANTS MaxWrites, MaxCrashes
VARIABLES dir, pc, writes, crashes, everComplete, sinceCrash
sfvars == <<dir, pc, writes, crashes, everComplete, sinceCrash>>

Names == {"state", "old"}
SFInit == /\ dir = [n \in Names |-> "absent"] /\ pc = "idle" /\ writes = 0 /\ crashes = 0
          /\ everComplete = FALSE /\ sinceCrash = 0

\* backup_file(): exists? -> rename(state, state.old) (atomic replace)
Backup == /\ pc = "idle" /\ writes < MaxWrites
          /\ IF dir["state"] # "absent"
             THEN dir' = [dir EXCEPT !["old"] = dir["state"], !["state"] = "absent"]
             ELSE UNCHANGED dir
          /\ pc' = "renamed" /\ sinceCrash' = sinceCrash + 1 /\ UNCHANGED <<writes, crashes, everComplete>>
Open == /\ pc = "renamed" /\ dir' = [dir EXCEPT !["state"] = "empty"] /\ pc' = "opened"
        /\ UNCHANGED <<writes, crashes, everComplete, sinceCrash>>
WriteSome == /\ pc \in {"opened", "writing"} /\ dir' = [dir EXCEPT !["state"] = "partial"] /\ pc' = "writing"
             /\ UNCHANGED <<writes, crashes, everComplete, sinceCrash>>
Close == /\ pc = "writing" /\ dir' = [dir EXCEPT !["state"] = "complete"] /\ pc' = "idle"
         /\ writes' = writes + 1 /\ everComplete' = TRUE /\ UNCHANGED <<crashes, sinceCrash>>
\* the process dies; a new one starts idle and will write again later
Crash == /\ crashes < MaxCrashes /\ pc # "idle" /\ pc' = "idle" /\ crashes' = crashes + 1
         /\ sinceCrash' = 0 /\ UNCHANGED <<dir, writes, everComplete>>
SFNext == Backup \/ Open \/ WriteSome \/ Close \/ Crash
SFSpec == SFInit /\ [][SFNext]_sfvars

\* the property: from the moment the first state was completed, some complete state is on disk
SomeComplete == everComplete => \E n \in Names : dir[n] = "complete"
\* what the protocol guarantees: while no earlier write was interrupted ...
NoCrashOK == (crashes = 0) => SomeComplete
\* ... and, after an interrupted write, until the next process starts its own backup
\* (that backup renames the partial file over the only complete one: known deviation)
FirstCrashOK == (crashes = 1 /\ sinceCrash = 0) => SomeComplete
=============================================================================
