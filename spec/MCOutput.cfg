SPECIFICATION MCSpec
CONSTANTS
  XS <- XS_Q
  ParamSet <- PS_Q
  MaxSteps = 5
  MaxRuns = 2
  EmitLen = 0
INVARIANTS ColumnsOK OncePerRun MultiplesOnly NoGap RunAveOK RunAveComplete AcfOK AcfOnce
\* vacuity: on
CHECK_DEADLOCK FALSE
