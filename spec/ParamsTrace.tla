----------------------------- MODULE ParamsTrace -----------------------------
(* Recorded executions of the real module (attempts with boundary values, follow-up definitions, steps compared with a  *)
(* module that never saw the rejected definitions) validated against Params.tla.                                        *)
EXTENDS Params
Trace == ndJsonDeserialize(IOEnv.TRACE)
VARIABLE l
tvars == <<objs, usable, hist, l>>
Ev == Trace[l]
Is(e) == l <= Len(Trace) /\ Ev.e = e /\ l' = l + 1 /\ UNCHANGED hist
SetOf(s) == {s[i] : i \in 1..Len(s)}
TReset == Is("Reset") /\ objs' = BaseObjs /\ usable' = TRUE
TBase == Is("Base") /\ SetOf(Ev.objs) = objs /\ UNCHANGED <<objs, usable>>
TAttempt == /\ Is("Attempt")
            /\ IF Ev.acc THEN /\ Accepted(SetOf(Ev.objs) \ objs)
                              /\ objs \subseteq SetOf(Ev.objs)
                              /\ Ev.owned                       \* every new name belongs to the submitted definition
                         ELSE /\ Rejected(SetOf(Ev.objs) \ objs)
                              /\ objs \subseteq SetOf(Ev.objs)
                              /\ Ev.owned
TFollow == Is("Follow") /\ Ev.acc /\ Follow /\ SetOf(Ev.objs) = objs'
TStep == Is("Step") /\ StepOK(SetOf(Ev.objs), SetOf(Ev.differ))
TNext == TReset \/ TBase \/ TAttempt \/ TFollow \/ TStep
TInit == PInit /\ l = 1
TSpec == TInit /\ [][TNext]_tvars
Progress == PrintT(<<"MAXL", l>>)
=============================================================================
