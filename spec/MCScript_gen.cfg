SPECIFICATION SSpec
CONSTANTS
  CvNames = {}
  BiasNames = {}
INVARIANTS Emit
CHECK_DEADLOCK FALSE
