SPECIFICATION MCSpec
CONSTANTS
  NB = 6
  XLo <- XLoDef
  XHi = 17
  ParamSet <- PS_E
  MaxSteps = 5
  MaxRuns = 2
  EmitLen = 5
VIEW View
INVARIANTS EnergyIsSumOfHills BufferOK
CHECK_DEADLOCK FALSE
\* vacuity: on
