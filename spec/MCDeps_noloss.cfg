SPECIFICATION Spec
CONSTANTS
  Obj <- ObjT
  KindOf <- KindOfT
  Feat <- FeatT
  FType <- FTypeT
  ReqSelf <- ReqSelfT
  ReqAlt <- ReqAltT
  ReqChild <- ReqChildT
  ReqExcl <- ReqExclT
  MaxIt = 4
  MaxOps = 4
  AllowAsleepDelete = FALSE
INVARIANTS NoLoss
CHECK_DEADLOCK FALSE
