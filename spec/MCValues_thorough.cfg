SPECIFICATION VSpec
CONSTANTS
  Geoms <- Geoms_T
  Masses <- Masses_T
  Cell <- Cell_Q
INVARIANTS InternalInvariant AxisInvariant MinImageInvariant MinImageShortest Emit
\* vacuity: on
CHECK_DEADLOCK FALSE
