SPECIFICATION TSpec
CONSTANTS
  NB1 = 3
  NB2 = 2
  XS1 = {}
  XS2 = {}
  FS2 = {}
  ParamSet = {}
  MaxSteps = 40
  MaxRuns = 100
  D = 1441440
INVARIANTS Progress CountExact SumExact DroppedOutside AppliedOK OutsideZero NoBiasZero CapOK
CHECK_DEADLOCK FALSE
